/-
C02 — message reassembly is independent of how the byte stream is chunked: additions that close
the gaps found by the statement audit (item 9).  Nothing in Props/C02.lean is changed.

* `chunked_stream`, `chunked_stream_residue`, `whole_stream`: the property AS WRITTEN, end to
  end — well-formed messages, any chunking of their concatenated encoding, fed to a session
  whose state machine accepts them ⇒ exactly those messages, in order, nothing left over, and
  the state a single delivery produces.
* `prefix_waits_any`, `recv_prefix_waits`, `feed_prefix_waits`: the framing clause for ANY
  complete top-level unit (Spec/C02More.lean `IsUnit`: a SEQUENCE-tagged data unit with
  arbitrary content), not only for the library's own encodings.
* `prefix_of_tlv_partial`, `decode_prefix_of_tlv_partial`: what happens on a proper prefix of a
  complete data unit with ANY identifier.  The proposal "no messages, no error, bytes kept" is
  FALSE there (see `octet_string_prefix_refused`); the theorems give the exact boundary.

NOT STATED, ON PURPOSE — the aliasing clause of C02 ("Messages already returned are
self-contained values: later deliveries, or the caller reusing its input buffer, never change
them").  The model is value-semantic: a `Msg` is an immutable Lean value and `recv` is a pure
function, so there is no way to even express that a returned message shares storage with the
session's buffer or with the caller's `bytearray`; every statement of the clause would be
`x = x`.  That clause is decided by the harness only (harness/p_c02.py re-reads the returned
objects after later deliveries and after overwriting the input buffer); no Lean theorem covers it.
-/
import Verif.Spec.C02More
import Verif.Spec.WF
import Verif.Proofs.C02More

namespace Verif.C02
open Verif

/-! ### the property as written -/

/-- C02, first sentence, end to end.  `ms` are well-formed messages (for the session's
    registrations, and within the decoder's nesting budget); `chunks` is ANY partition of the
    concatenation of their encodings into consecutive pieces (empty pieces, single bytes, cuts
    inside headers, several messages per piece — `chunks` is an arbitrary list with the right
    `flatten`); the session is open, has nothing buffered, and its state machine accepts the
    messages in this order (`hacc`: no unsolicited id, no unbind/notice, … — without it `receive`
    raises, by C05).  Then feeding the chunks one by one returns exactly `ms` (with the raw
    control values filled in, the one permitted difference, see C01) in order, raises nothing,
    ends in the state `s2` the state machine computes, and leaves nothing buffered.

    Differences from the audit's proposal: `s.state ≠ .closed` is needed (a closed session
    refuses every delivery, `closed_session_refuses`; `processLoop` itself does not look at the
    state); `IsBytes …` is not needed; the final state is `s2` itself, because `s2.residue = []`
    (second conjunct), so `{ s2 with residue := [] } = s2`. -/
theorem chunked_stream (depth : Nat) (s s2 : Sess) (chunks : List Bytes) (ms : List Msg)
    (hs : s.state ≠ .closed) (hr : s.residue = []) (hne : chunks ≠ [])
    (hwf : ∀ m ∈ ms, m.WF s.regs ∧ m.op.filterDepth < depth)
    (hc : chunks.flatten = (ms.map encMsg).flatten)
    (hacc : processLoop s (ms.map fillRaw) = .ok s2) :
    feed depth s chunks = (s2, ms.map fillRaw, none) ∧ s2.residue = [] :=
  Proofs.C02More.chunked_stream depth s s2 chunks ms hs hr hne hwf hc hacc

/-- the same when the session already buffers the beginning of the stream (left over from
    earlier deliveries): the "leftover + several messages" path of `receive` -/
theorem chunked_stream_residue (depth : Nat) (s s2 : Sess) (chunks : List Bytes) (ms : List Msg)
    (hs : s.state ≠ .closed) (hne : chunks ≠ [])
    (hwf : ∀ m ∈ ms, m.WF s.regs ∧ m.op.filterDepth < depth)
    (hc : s.residue ++ chunks.flatten = (ms.map encMsg).flatten)
    (hacc : processLoop s (ms.map fillRaw) = .ok s2) :
    feed depth s chunks = ({ s2 with residue := [] }, ms.map fillRaw, none) :=
  Proofs.C02More.chunked_stream_residue depth s s2 chunks ms hs hne hwf hc hacc

/-- "… and leaves the session in the same state as a single delivery would": the single
    delivery of the whole stream returns the same messages and ends in the same `s2` -/
theorem whole_stream (depth : Nat) (s s2 : Sess) (ms : List Msg)
    (hs : s.state ≠ .closed) (hr : s.residue = [])
    (hwf : ∀ m ∈ ms, m.WF s.regs ∧ m.op.filterDepth < depth)
    (hacc : processLoop s (ms.map fillRaw) = .ok s2) :
    recv depth s (ms.map encMsg).flatten = (s2, .msgs (ms.map fillRaw)) :=
  Proofs.C02More.whole_stream depth s s2 ms hs hr hwf hacc

/-- why `chunked_stream` asks for an open session: a closed one answers the first delivery
    with an error, whatever the bytes -/
theorem closed_session_refuses (depth : Nat) (s : Sess) (c : Bytes) (cs : List Bytes)
    (h : s.state = .closed) : (feed depth s (c :: cs)).2.2 ≠ none :=
  Proofs.C02More.closed_feed depth s c cs h

/-! non-vacuity, server side: a bind, a search (nested filter, paged-results control whose raw
    value `fillRaw` fills in) and an extended request — 18, 87 and 17 octets — cut after the
    first identifier octet of each message (inside the header), inside each value, with an empty
    chunk and a chunk that spans the end of one message and the header of the next -/
def srvMsgs : List Msg :=
  [⟨1, .bindReq 3 [99, 110] (.simple [112, 119]), []⟩,
   ⟨2, .searchReq [100, 99] 2 0 0 0 false (.and [.present [99, 110], .eq [97] [98]]) [[99, 110]],
      [.paged true 10 [7] none]⟩,
   ⟨3, .extReq [49, 46, 50] (some [1, 2, 3]), []⟩]

/-- cuts at stream offsets 1, 1, 10, 19, 60, 106, 115 -/
def srvChunks : List Bytes := cut (srvMsgs.map encMsg).flatten [1, 0, 9, 9, 41, 46, 9]

def srvEnd : Sess :=
  { role := .server, state := .binding, outstanding := [1, 2, 3], searches := [2] }

theorem srvMsgs_wf : ∀ m ∈ srvMsgs, m.WF (Sess.init .server).regs ∧ m.op.filterDepth < 5 := by
  simp [srvMsgs, Msg.WF, Op.WF, Cred.WF, Filter.WF, Filter.WFs, Control.WF, IsText, optText]
  decide

example : srvMsgs.map (fun m => (encMsg m).length) = [18, 87, 17] := by decide
example : srvChunks.length = 8 ∧ srvChunks.map List.length = [1, 0, 9, 9, 41, 46, 9, 7] := by decide

example : feed 5 (Sess.init .server) srvChunks = (srvEnd, srvMsgs.map fillRaw, none) :=
  (chunked_stream 5 (Sess.init .server) srvEnd srvChunks srvMsgs (by decide) rfl
    (Proofs.C02More.cut_ne_nil _ _) srvMsgs_wf (Proofs.C02More.flatten_cut _ _) rfl).1

/-! non-vacuity, client side: a search entry, the search's done (with a paged-results control)
    and an extended response, for a client with two requests in flight -/
def cliStart : Sess :=
  { role := .client, state := .opened, outstanding := [1, 2], searches := [2], counter := 3 }

def cliMsgs : List Msg :=
  [⟨2, .searchEntry [100, 99] [([99, 110], [[120], [121]])], []⟩,
   ⟨2, .searchDone ⟨0, [], [], none⟩, [.paged false 0 [] none]⟩,
   ⟨1, .extResp ⟨0, [], [], none⟩ (some [49, 46, 51]) none, []⟩]

/-- 27, 51 and 19 octets; cuts at stream offsets 1, 12, 28, 50, 79, 90 -/
def cliChunks : List Bytes := cut (cliMsgs.map encMsg).flatten [1, 11, 16, 22, 29, 11]

def cliEnd : Sess := { role := .client, state := .opened, counter := 3 }

theorem cliMsgs_wf : ∀ m ∈ cliMsgs, m.WF cliStart.regs ∧ m.op.filterDepth < 5 := by
  simp [cliMsgs, cliStart, Msg.WF, Op.WF, LdapResult.WF, Control.WF, IsText, optText]
  decide

example : cliMsgs.map (fun m => (encMsg m).length) = [27, 51, 19] ∧
    cliChunks.map List.length = [1, 11, 16, 22, 29, 11, 7] := by decide
example : feed 5 cliStart cliChunks = (cliEnd, cliMsgs.map fillRaw, none) :=
  (chunked_stream 5 cliStart cliEnd cliChunks cliMsgs (by decide) rfl
    (Proofs.C02More.cut_ne_nil _ _) cliMsgs_wf (Proofs.C02More.flatten_cut _ _) rfl).1

/-! ### framing: proper prefixes of complete units the library did not write -/

/-- `prefix_waits` for ANY complete top-level unit: `u` is identifier octets for UNIVERSAL
    constructed 16, definite length octets (short or long form, minimal or not), and that many
    ARBITRARY content octets (Spec/C02More.lean, written from X.690 §8.1.2–8.1.3).  Every proper
    prefix of `u` — cut inside the identifier, inside the length octets or inside the content —
    makes the decoder answer "not enough data". -/
theorem prefix_waits_any (regs : Regs) (depth : Nat) (u p : Bytes) (hu : IsUnit u)
    (hp : p <+: u) (hlt : p.length < u.length) :
    decMsg regs depth p = .error .notEnough :=
  Proofs.C02More.decMsg_prefix_unit regs depth u p hu hp hlt

/-- … and at the level of `receive`: as long as what the session holds (buffered bytes plus the
    new chunk) is a proper prefix of one complete top-level unit, `receive` returns no message,
    raises nothing, changes nothing else in the session, and keeps all the bytes. -/
theorem recv_prefix_waits (depth : Nat) (s : Sess) (chunk u : Bytes) (hs : s.state ≠ .closed)
    (hu : IsUnit u) (hp : s.residue ++ chunk <+: u)
    (hlt : (s.residue ++ chunk).length < u.length) :
    recv depth s chunk = ({ s with residue := s.residue ++ chunk }, .msgs []) :=
  Proofs.C02More.recv_prefix_unit depth s chunk u hs hu hp hlt

/-- … over any number of deliveries -/
theorem feed_prefix_waits (depth : Nat) (s : Sess) (chunks : List Bytes) (u : Bytes)
    (hs : s.state ≠ .closed) (hu : IsUnit u) (hp : s.residue ++ chunks.flatten <+: u)
    (hlt : (s.residue ++ chunks.flatten).length < u.length) :
    feed depth s chunks = ({ s with residue := s.residue ++ chunks.flatten }, [], none) :=
  Proofs.C02More.feed_prefix_unit depth chunks s u hs hu hp hlt

/-- the new statements subsume the old one: what the library's encoder writes is a complete
    unit in the sense of `IsUnit` (for every message whose encoding is shorter than 256^126
    octets — the largest length 126 length octets can express; `C02.prefix_waits` itself has no
    such bound because the model's length octet is an unbounded `Nat`) -/
theorem own_encoding_is_unit (m : Msg) (hn : (encMsg m).length < 256 ^ 126) : IsUnit (encMsg m) :=
  Proofs.C02More.isUnit_encMsg m hn

/-- FALSE as proposed for units with other identifiers: four octets of a seven-octet OCTET
    STRING are refused (ProtocolError, session closed), not waited on -/
theorem octet_string_prefix_refused :
    IsTlv 0 false 4 [4, 5, 1, 2, 3, 4, 5] ∧ RecvRefuses 10 (Sess.init .server) [4, 5, 1, 2] :=
  ⟨⟨[4], [5], [1, 2, 3, 4, 5], .low 0 false 4 (by decide) (by decide), .short 5 (by decide), rfl⟩,
   rfl⟩

/-- The strongest true form for a complete data unit with ANY identifier (class `cls`,
    primitive/constructed `cons`, number `num`): what the session holds is a proper prefix of
    `id ++ len ++ content`.  Then `receive` NEVER returns a message; it either waits (no message,
    no error, bytes kept) or refuses (ProtocolError, closed, bytes kept), and which one is
    decided as follows:
    * cut inside the identifier octets: waits;
    * cut inside the length octets (header incomplete): waits — unless the identifier already
      shows a UNIVERSAL number above 36, which the library has no name for;
    * such an unknown UNIVERSAL number: refused as soon as the identifier octets are complete;
    * header complete and it is not UNIVERSAL constructed 16: refused.
    (Header complete and SEQUENCE: waits, `recv_prefix_waits`.)
    `_partial`: falls short of "always waits", which is false (`octet_string_prefix_refused`). -/
theorem prefix_of_tlv_partial (depth : Nat) (s : Sess) (chunk id len content : Bytes)
    (cls : Nat) (cons : Bool) (num : Nat) (hs : s.state ≠ .closed)
    (hid : IdOctets id cls cons num) (hlen : LenOctets len content.length)
    (hp : s.residue ++ chunk <+: id ++ len ++ content)
    (hlt : (s.residue ++ chunk).length < (id ++ len ++ content).length) :
    (RecvWaits depth s chunk ∨ RecvRefuses depth s chunk) ∧
    ((s.residue ++ chunk).length < id.length → RecvWaits depth s chunk) ∧
    (¬ (cls = 0 ∧ 36 < num) → (s.residue ++ chunk).length < id.length + len.length →
        RecvWaits depth s chunk) ∧
    (cls = 0 ∧ 36 < num → id.length ≤ (s.residue ++ chunk).length → RecvRefuses depth s chunk) ∧
    ((cls, cons, num) ≠ (0, true, 16) → id.length + len.length ≤ (s.residue ++ chunk).length →
        RecvRefuses depth s chunk) :=
  Proofs.C02More.recv_prefix_tlv depth s chunk id len content cls cons num hs hid hlen hp hlt

/-- the decoder itself, on a proper prefix of a complete data unit with any identifier: "not
    enough data" or a value error — never a message, never another error class -/
theorem decode_prefix_of_tlv_partial (regs : Regs) (depth : Nat) (p id len content : Bytes)
    (cls : Nat) (cons : Bool) (num : Nat)
    (hid : IdOctets id cls cons num) (hlen : LenOctets len content.length)
    (hp : p <+: id ++ len ++ content) (hlt : p.length < (id ++ len ++ content).length) :
    decMsg regs depth p = .error .notEnough ∨ decMsg regs depth p = .error .valueError :=
  Proofs.C02More.decMsg_prefix_tlv regs depth p id len content cls cons num hid hlen hp hlt

/-! non-vacuity: a unit the library would never write — SEQUENCE in the high-tag-number form,
    a non-minimal three-octet length, and content that is not an LDAPMessage -/
def oddUnit : Bytes := [63, 128, 16] ++ [130, 0, 4] ++ [255, 0, 255, 0]

theorem oddUnit_isUnit : IsUnit oddUnit :=
  ⟨[63, 128, 16], [130, 0, 4], [255, 0, 255, 0],
   .high 0 true [0] 16 (by decide) (by decide) (by decide),
   .long [0, 4] (by decide) (by decide), rfl⟩

example : ∀ k < 10, decMsg {} 10 (oddUnit.take k) = .error .notEnough := fun k hk =>
  prefix_waits_any {} 10 oddUnit (oddUnit.take k) oddUnit_isUnit (List.take_prefix _ _)
    (by rw [List.length_take]; exact Nat.lt_of_le_of_lt (Nat.min_le_left _ _) hk)

example : feed 10 { (Sess.init .client) with residue := [63] } [[128, 16, 130], [], [0, 4, 255]]
    = ({ (Sess.init .client) with residue := [63, 128, 16, 130, 0, 4, 255] }, [], none) :=
  feed_prefix_waits 10 _ _ oddUnit (by decide) oddUnit_isUnit (by decide) (by decide)

/-- every clause of `prefix_of_tlv_partial` is inhabited: an APPLICATION unit cut in its
    length octets waits, cut after them is refused; UNIVERSAL 37 is refused after its identifier -/
example : RecvWaits 10 (Sess.init .server) [96, 129] ∧ RecvRefuses 10 (Sess.init .server) [96, 129, 200, 1] ∧
    RecvWaits 10 (Sess.init .server) [31] ∧ RecvRefuses 10 (Sess.init .server) [31, 37] := ⟨rfl, rfl, rfl, rfl⟩

end Verif.C02
