/-
C07, additions (statement-audit item 8): "a reader never consumes bytes beyond the value it
returns", on ARBITRARY input — any list of numbers, byte-valued or not, produced by the writers
or not (padded long-form lengths, high-tag-number forms with leading zero groups, …).

`Props/C07.lean` states this clause only for `read (write x ++ rest)`.  Here, for every reader of
`Model/Ber.lean` that returns `(value, rest)` — `readTLV`, `readOctets`, `readInt`, `readBool`,
`readText` — and for `readHeader` / `skipValue`:

  * the bytes consumed are exactly header + declared length and `rest` is exactly the suffix that
    follows (`read_consumes_exactly`, `*_no_over_read`);
  * the value depends on the consumed prefix only: put anything else behind it and the same
    value comes back with that anything as the rest (`*_no_over_read`, `header_local`);
  * nothing less will do: on every strict prefix of the consumed bytes, and more generally
    whenever the input is shorter than header + declared length, the reader raises
    `NotEnougData` instead of returning (`*_no_over_read`, `*_not_enough_iff`,
    `short_never_returns`);
  * `skipValue` does not over-read either, but — one proposed clause is FALSE for it — it does
    not fail on short input (`skip_consumes_exactly_partial`, `skip_short_returns`).

Statements only; proofs are in `Verif/Proofs/C07More.lean`, vocabulary (`TagAccepted`,
`ValueAt`, `NoOverRead`, `TooShort`) in `Verif/Spec/C07More.lean`.
-/
import Verif.Model.Ber
import Verif.Spec.Twos
import Verif.Spec.C07More
import Verif.Proofs.C07More

namespace Verif.C07

open Verif

/-! ### the consumed bytes are exactly header + declared length -/

/-- "A reader never consumes bytes beyond the value it returns", shape of the split, for the
    generic reader on any input: when `readTLV` returns `(c, rest)`, the header seen by
    `peek_header` is `hd`, its tag passed the check, and `bs = header octets ++ c ++ rest` with
    exactly `hd.hlen` header octets and exactly `hd.len` content octets.  (Audit proposal
    `read_consumes_exactly`, plus the tag check and `(bs.take hd.hlen).length = hd.hlen`.) -/
theorem read_consumes_exactly (e : Option Tag) (bs c rest : Bytes)
    (h : readTLV e bs = .ok (c, rest)) :
    ∃ hd, readHeader bs = .ok hd ∧ TagAccepted e hd.tag ∧
      ValueAt bs hd (bs.take hd.hlen) c rest :=
  Proofs.C07More.read_consumes_exactly e bs c rest h

/-- `peek_header` (tags and lengths of every form) reads the identifier and length octets and
    nothing else: they are all there (`hlen ≤ |bs|`), the same header is returned whatever
    follows them, and every strict prefix of them raises `NotEnougData`. -/
theorem header_local (bs : Bytes) (hd : Header) (h : readHeader bs = .ok hd) :
    hd.hlen ≤ bs.length ∧
    (∀ other, readHeader (bs.take hd.hlen ++ other) = .ok hd) ∧
    (∀ n, n < hd.hlen → readHeader (bs.take n) = .error .notEnough) :=
  Proofs.C07More.header_local bs hd h

/-! ### no over-read, reader by reader

`NoOverRead r bs v rest` (Spec/C07More.lean): `bs = consumed ++ rest`,
`consumed.length = hd.hlen + hd.len` for the header `hd` of `bs`; for every `other`,
`r (consumed ++ other) = .ok (v, other)` (and the header is still `hd`); and `r` raises
`NotEnougData` on every strict prefix of `consumed`. -/

/-- no over-read for `_validate_tag` / the generic TLV reader, any expected tag or none -/
theorem tlv_no_over_read (e : Option Tag) (bs c rest : Bytes)
    (h : readTLV e bs = .ok (c, rest)) : NoOverRead (readTLV e) bs c rest :=
  Proofs.C07More.tlv_no_over_read e bs c rest h

/-- no over-read for `read_octet_string` -/
theorem octets_no_over_read (e : Option Tag) (bs c rest : Bytes)
    (h : readOctets e bs = .ok (c, rest)) : NoOverRead (readOctets e) bs c rest :=
  Proofs.C07More.octets_no_over_read e bs c rest h

/-- no over-read for `read_integer` / `read_enumerated` (INTEGER and ENUMERATED share the
    model reader `readInt`; the tag is the parameter `e`) -/
theorem int_no_over_read (e : Option Tag) (bs : Bytes) (v : Int) (rest : Bytes)
    (h : readInt e bs = .ok (v, rest)) : NoOverRead (readInt e) bs v rest :=
  Proofs.C07More.int_no_over_read e bs v rest h

/-- no over-read for `read_boolean` -/
theorem bool_no_over_read (e : Option Tag) (bs : Bytes) (b : Bool) (rest : Bytes)
    (h : readBool e bs = .ok (b, rest)) : NoOverRead (readBool e) bs b rest :=
  Proofs.C07More.bool_no_over_read e bs b rest h

/-- no over-read for `read_octet_string(...).decode("utf-8")` -/
theorem text_no_over_read (e : Option Tag) (bs t rest : Bytes)
    (h : readText e bs = .ok (t, rest)) : NoOverRead (readText e) bs t rest :=
  Proofs.C07More.text_no_over_read e bs t rest h

/-! ### the value is a function of the content octets inside the consumed prefix -/

/-- on arbitrary byte input the integer returned is the two's-complement value (the arithmetic
    oracle `twos` of Spec/Twos.lean) of the non-empty content octets `c` that `readTLV` cut out —
    which by `read_consumes_exactly` lie inside the consumed prefix -/
theorem int_value (e : Option Tag) (bs : Bytes) (v : Int) (rest : Bytes) (hb : IsBytes bs)
    (h : readInt e bs = .ok (v, rest)) :
    ∃ c, readTLV e bs = .ok (c, rest) ∧ c ≠ [] ∧ v = twos c :=
  Proofs.C07More.int_value e bs v rest hb h

/-- the boolean returned is `False` exactly when the content octets are the single octet 0 -/
theorem bool_value (e : Option Tag) (bs : Bytes) (b : Bool) (rest : Bytes)
    (h : readBool e bs = .ok (b, rest)) :
    ∃ c, readTLV e bs = .ok (c, rest) ∧ (b = false ↔ c = [0]) :=
  Proofs.C07More.bool_value e bs b rest h

/-- the text returned is the content octets themselves, and they are well-formed UTF-8 -/
theorem text_value (e : Option Tag) (bs t rest : Bytes)
    (h : readText e bs = .ok (t, rest)) :
    readTLV e bs = .ok (t, rest) ∧ validUtf8 t = true :=
  Proofs.C07More.text_value e bs t rest h

/-! ### shorter than header + declared length: `NotEnougData`, never a value

`TooShort e bs` (Spec/C07More.lean): the header cannot be completed, or it is complete, its
tag is acceptable, and `bs.length < hd.hlen + hd.len`. -/

/-- `readTLV` raises `NotEnougData` exactly on the inputs that are too short -/
theorem tlv_not_enough_iff (e : Option Tag) (bs : Bytes) :
    readTLV e bs = .error .notEnough ↔ TooShort e bs :=
  Proofs.C07More.tlv_not_enough_iff e bs

/-- `read_octet_string` raises `NotEnougData` exactly on the inputs that are too short -/
theorem octets_not_enough_iff (e : Option Tag) (bs : Bytes) :
    readOctets e bs = .error .notEnough ↔ TooShort e bs :=
  Proofs.C07More.octets_not_enough_iff e bs

/-- `read_integer` / `read_enumerated` raise `NotEnougData` exactly on the inputs that are too
    short (bad content is `ValueError`, never `NotEnougData`) -/
theorem int_not_enough_iff (e : Option Tag) (bs : Bytes) :
    readInt e bs = .error .notEnough ↔ TooShort e bs :=
  Proofs.C07More.int_not_enough_iff e bs

/-- `read_boolean` raises `NotEnougData` exactly on the inputs that are too short -/
theorem bool_not_enough_iff (e : Option Tag) (bs : Bytes) :
    readBool e bs = .error .notEnough ↔ TooShort e bs :=
  Proofs.C07More.bool_not_enough_iff e bs

/-- the text reader raises `NotEnougData` exactly on the inputs that are too short -/
theorem text_not_enough_iff (e : Option Tag) (bs : Bytes) :
    readText e bs = .error .notEnough ↔ TooShort e bs :=
  Proofs.C07More.text_not_enough_iff e bs

/-- Readers fail rather than return when `bs` is shorter than header + declared length: with a
    complete header `hd` and `bs.length < hd.hlen + hd.len`, every value reader raises
    `NotEnougData` if the tag is acceptable, and `ValueError` (the tag check comes first) if it
    is not.  In neither case is a value returned. -/
theorem short_never_returns (e : Option Tag) (bs : Bytes) (hd : Header)
    (hh : readHeader bs = .ok hd) (hs : bs.length < hd.hlen + hd.len) :
    (TagAccepted e hd.tag →
      readTLV e bs = .error .notEnough ∧ readOctets e bs = .error .notEnough ∧
      readInt e bs = .error .notEnough ∧ readBool e bs = .error .notEnough ∧
      readText e bs = .error .notEnough) ∧
    (¬ TagAccepted e hd.tag →
      readTLV e bs = .error .valueError ∧ readOctets e bs = .error .valueError ∧
      readInt e bs = .error .valueError ∧ readBool e bs = .error .valueError ∧
      readText e bs = .error .valueError) :=
  Proofs.C07More.short_never_returns e bs hd hh hs

/-! ### `skip_value` -/

/-- `skip_value(peek_header())` skips what the generic reader would consume: whenever
    `readTLV none` returns `(c, rest)`, `skipValue` returns the same `rest`. -/
theorem skip_agrees_with_read (bs c rest : Bytes) (h : readTLV none bs = .ok (c, rest)) :
    skipValue bs = .ok rest :=
  Proofs.C07More.skip_agrees_with_read bs c rest h

/-- `skip_value` fails exactly when `peek_header` fails, with the same exception -/
theorem skip_error_iff (bs : Bytes) (err : Err) :
    skipValue bs = .error err ↔ readHeader bs = .error err :=
  Proofs.C07More.skip_error_iff bs err

/-- No over-read for `skip_value`, PARTIAL with respect to the proposal.  What holds: `rest` is a
    suffix of `bs`, the skipped prefix is never longer than header + declared length, and when
    the value is complete (`hlen + len ≤ |bs|`) the skipped prefix has exactly that length, the
    result agrees with `readTLV none`, and with any other bytes behind the skipped prefix those
    bytes are returned untouched.
    What is missing, and why: the proposal "consumed.length = hlen + len" and "fail
    (`NotEnougData`) when shorter" is FALSE for `skipValue` — `skip_value` is the unchecked
    slice `self._view[header.tag_length + header.length:]` (asn1.py:173), so on a truncated
    value it returns the empty rest instead of raising; hence `min … bs.length` here and the
    companion theorem `skip_short_returns`.  Witness: `skipValue [4, 5, 1] = .ok []` (below). -/
theorem skip_consumes_exactly_partial (bs rest : Bytes) (h : skipValue bs = .ok rest) :
    ∃ hd consumed, readHeader bs = .ok hd ∧ bs = consumed ++ rest ∧
      consumed.length = min (hd.hlen + hd.len) bs.length ∧
      (hd.hlen + hd.len ≤ bs.length →
        (∃ c, readTLV none bs = .ok (c, rest)) ∧
        ∀ other, skipValue (consumed ++ other) = .ok other) :=
  Proofs.C07More.skip_consumes_exactly bs rest h

/-- The failing clause, as a theorem: on input shorter than header + declared length
    `skip_value` returns (with nothing left) where the value readers raise `NotEnougData`.
    It still reads nothing beyond `bs`. -/
theorem skip_short_returns (bs : Bytes) (hd : Header) (hh : readHeader bs = .ok hd)
    (hs : bs.length < hd.hlen + hd.len) :
    skipValue bs = .ok [] ∧ readTLV none bs = .error .notEnough :=
  Proofs.C07More.skip_short_returns bs hd hh hs

/-! ### Non-vacuity: the hypotheses are met by concrete, non-trivial values.

The inputs are deliberately NOT writer output: a padded 2-octet long-form length (`0x82 0x00 0x02`,
the writer would emit `0x02`), a high-tag-number identifier, a padded integer. -/

/-- `read_consumes_exactly`, `tlv_no_over_read`, `octets_no_over_read`: padded long-form length -/
example : readTLV (some tOctets) [4, 130, 0, 2, 7, 8, 9, 10] = .ok ([7, 8], [9, 10]) := by decide
example : readOctets none [4, 130, 0, 2, 7, 8, 9, 10] = .ok ([7, 8], [9, 10]) := by decide
/-- `header_local`: context tag 1024 in high-tag-number form, 2 length octets; `hlen = 6` -/
example : readHeader [191, 136, 0, 130, 1, 0, 5] = .ok ⟨tagCtx 1024 true, 6, 256⟩ := by decide
/-- `int_no_over_read`, `int_value`: padded (non-minimal) integer `00 00 80` = 128 -/
example : readInt (some tInt) [2, 3, 0, 0, 128, 99] = .ok (128, [99]) := by decide
example : IsBytes [2, 3, 0, 0, 128, 99] := by decide
/-- `bool_no_over_read`, `bool_value`: a two-octet boolean content reads as `True` -/
example : readBool none [1, 2, 0, 0, 77] = .ok (true, [77]) := by decide
/-- `text_no_over_read`, `text_value` -/
example : readText (some tOctets) [4, 2, 195, 169, 1] = .ok ([195, 169], [1]) := by decide
/-- `TooShort`, both disjuncts, and a complete value that is not too short -/
example : TooShort (some tOctets) [4, 130, 0] := .inl (by decide)
example : TooShort (some tOctets) [4, 130, 0, 2, 7] :=
  .inr ⟨⟨tOctets, 4, 2⟩, by decide, by decide, by decide⟩
example : ¬ TooShort (some tOctets) [4, 130, 0, 2, 7, 8] := by
  rw [← tlv_not_enough_iff]; decide
/-- `short_never_returns`: both branches have instances -/
example : readHeader [4, 5, 1] = .ok ⟨tOctets, 2, 5⟩ ∧ [4, 5, 1].length < 2 + 5 ∧
    TagAccepted (some tOctets) tOctets ∧ ¬ TagAccepted (some tInt) tOctets := by decide
/-- `skip_agrees_with_read`, `skip_consumes_exactly_partial` (complete value) -/
example : skipValue [4, 130, 0, 2, 7, 8, 9, 10] = .ok [9, 10] := by decide
/-- `skip_short_returns`: the witness against "skip fails on short input" -/
example : skipValue [4, 5, 1] = .ok [] ∧ readTLV none [4, 5, 1] = .error .notEnough := by decide
/-- `skip_error_iff` -/
example : skipValue [4] = .error .notEnough ∧ skipValue [4, 128] = .error .valueError := by decide

end Verif.C07
