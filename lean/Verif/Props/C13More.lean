/-
C13 / C15 — additional statements closing audit item 7 (the RFC clauses of the two
properties).  Nothing in Props/C13.lean or Props/C15.lean is changed; these theorems are added.

  C13  "the text form uses only RFC 4515 syntax"        → `toText_is_sentence_partial`,
                                                           `toText_is_sentence_iff`,
                                                           `sentence_denotes_domain`,
                                                           `dn_only_extensible_is_no_sentence`
  C15  "the attribute descriptions it accepts are all
        valid under RFC 4512"                           → `validAttr_iff`, `accepted_attrs_rfc`
  C15  "reports offset ≥ 0, length ≥ 0 inside the input"
        with Python-`int` (not truncated) subtraction   → `syntax_report_no_truncation`,
                                                           `no_negative_index`, `total_int`,
                                                           `unbalanced_paren_inside`
-/
import Verif.Spec.C13More
import Verif.Spec.FilterWF
import Verif.Proofs.C13More

/-! ## C13 -/
namespace Verif.C13
open Verif Verif.Rfc4515

/-- **C13, clause "the text form uses only RFC 4515 syntax"** (the analogue of C16's
    `*_text_is_sentence`): the text form of a filter tree is a sentence of the independent
    RFC 4515 grammar `Rfc4515.Sent` *denoting that tree* — so, by C14, it parses back to it and
    nothing in it is outside the grammar.  Hypotheses: `h` the text domain of C13; `ha` every
    attribute description is an RFC 4512 `attributedescription` and every matching rule an RFC
    4512 `oid` (`WFText` only demands the library's pattern, which is wider: F-C15d, and options
    on a matching rule); `he` every extensible match names an attribute or a matching rule.

    `_partial`: the proposed statement had `h` and `ha` only, and is FALSE.  Witness:
    `.ext none none v true` is in `WFText` (its text `(:dn:=v)` is accepted by the parser and
    reparses to the same tree — C13 `parse_toText` covers it), satisfies `AttrsRfc` vacuously,
    yet RFC 4515 has no production for it (`extensible` needs `attr` or `matchingrule`; RFC 4511
    §4.5.1.7.7 "if the type field is absent, the matchingRule MUST be present") — see
    `dn_only_extensible_is_no_sentence`.  With `he` the statement is exact
    (`toText_is_sentence_iff`), so nothing further is missing. -/
theorem toText_is_sentence_partial (f : Filter) (h : f.WFText) (ha : f.AttrsRfc) (he : f.ExtRfc) :
    Sent f (toText f) :=
  Proofs.C13More.toText_sent f h ha he

/-- the three hypotheses are exactly the condition: the text form is an RFC 4515 sentence for
    the tree iff the tree is in the text domain, carries RFC 4512 names only, and every
    extensible match has an attribute or a rule -/
theorem toText_is_sentence_iff (f : Filter) : Sent f (toText f) ↔ f.WFText ∧ f.AttrsRfc ∧ f.ExtRfc :=
  Proofs.C13More.toText_sent_iff f

/-- any RFC 4515 sentence (not only the library's own output) denotes a tree in that domain —
    so the domain of `toText_is_sentence_partial` is all of what the grammar can denote -/
theorem sentence_denotes_domain (f : Filter) (t : Bytes) (h : Sent f t) : f.WFText ∧ f.AttrsRfc ∧ f.ExtRfc :=
  Proofs.C13More.sent_domain h

/-- the witness against the statement without `ExtRfc` (a finding about what the parser
    accepts, see the examples below): no octet string at all is a sentence for an extensible
    match that has the dn flag only -/
theorem dn_only_extensible_is_no_sentence (v t : Bytes) : ¬ Sent (.ext none none v true) t :=
  Proofs.C13More.ext_dn_only_not_sentence v t

/-! non-vacuity: a tree with injection attempts in its values, an attribute with an option, a
    numeric OID rule and the dn flag -/
def sampleRfc : Filter :=
  .and [.eq [99, 110] [41, 40, 117, 105, 100, 61, 42],            -- cn = ")(uid=*"
        .not (.substr [99, 110, 59, 120] (some [42]) [[0], [92, 50, 97]] none),     -- cn;x
        .ext (some [50, 46, 53, 46, 49, 51, 46, 50]) (some [111]) [255, 10] true,   -- o:dn:2.5.13.2:=
        .ext (some [97]) none [120] false]                                          -- :a:=x

example : sampleRfc.WFText ∧ sampleRfc.AttrsRfc ∧ sampleRfc.ExtRfc := by
  refine ⟨?_, ?_, ?_⟩
  · simp [sampleRfc, Filter.WFText, Filter.WFTexts, IsBytes]; decide
  · simp only [sampleRfc, Filter.AttrsRfc, Filter.AttrsRfcs]
    exact ⟨Proofs.C13More.sample_cn, Proofs.C13More.sample_cn_x,
      ⟨IsAttrDesc.mk [111] [] (IsOid.descr _ ⟨by decide, by decide⟩) (by simp), Proofs.C13More.sample_rule⟩,
      ⟨trivial, IsOid.descr _ ⟨by decide, by decide⟩⟩, trivial⟩
  · simp [sampleRfc, Filter.ExtRfc, Filter.ExtRfcs]
example : Sent sampleRfc (toText sampleRfc) :=
  (toText_is_sentence_iff sampleRfc).2 ⟨by simp [sampleRfc, Filter.WFText, Filter.WFTexts, IsBytes]; decide,
    by simp only [sampleRfc, Filter.AttrsRfc, Filter.AttrsRfcs]
       exact ⟨Proofs.C13More.sample_cn, Proofs.C13More.sample_cn_x,
        ⟨IsAttrDesc.mk [111] [] (IsOid.descr _ ⟨by decide, by decide⟩) (by simp), Proofs.C13More.sample_rule⟩,
        ⟨trivial, IsOid.descr _ ⟨by decide, by decide⟩⟩, trivial⟩,
    by simp [sampleRfc, Filter.ExtRfc, Filter.ExtRfcs]⟩

/-- FINDING (accepting direction, outside RFC 4515): `(:dn:=x)` is accepted and yields the
    extensible match with neither attribute nor rule; it is in the C13 domain … -/
example : parseFilterText 4 [40, 58, 100, 110, 58, 61, 120, 41] = .ok (.ext none none [120] true) := by rfl
example : (Filter.ext none none [120] true).WFText := by simp [Filter.WFText, IsBytes]
/-- … and a matching rule with options, `(cn:2.5;x:=v)`, is accepted although a matching
    rule is an `oid` (no options): recorded finding F-C15r, see
    `C15.matching_rule_options_known_finding` -/
example : parseFilterText 4 [40, 99, 110, 58, 50, 46, 53, 59, 120, 58, 61, 118, 41]
    = .ok (.ext (some [50, 46, 53, 59, 120]) (some [99, 110]) [118] false) := by rfl

end Verif.C13

/-! ## C15 -/
namespace Verif.C15
open Verif Verif.Rfc4515

/-- **C15, clause "the attribute descriptions it accepts are all valid under RFC 4512"**, both
    directions: the library's attribute pattern accepts a string iff it is an RFC 4512
    `attributedescription` (descr or numericoid with ≥ 2 arcs, then `;option`s) or the recorded
    deviation F-C15d — one `number` followed by options (`0`, `1;opt`), which the unedited
    test suite pins as accepted.  Nothing else is accepted: no further witnesses. -/
theorem validAttr_iff (a : Bytes) : validAttr a = true ↔ IsAttrDesc a ∨ IsSingleArcAttr a :=
  Proofs.C13More.validAttr_iff a

/-- the same clause on the parser: whenever `from_string` accepts, every attribute description
    of the result is an RFC 4512 `attributedescription` up to F-C15d (C15 `accepted_attrs_valid`
    with the pattern replaced by what it means).  Matching rules go through the same pattern, so
    for them the theorem says "`oid` optionally followed by options, or F-C15d": options on a
    matching rule are outside RFC 4515 (`matchingrule = oid`) — second observation in the C13
    examples above; `Filter.AttrsRfc` (rules are `IsOid`) is therefore NOT implied by acceptance. -/
theorem accepted_attrs_rfc (depth : Nat) (s : List Nat) (f : Filter)
    (h : parseFilterText depth s = .ok f) : f.AttrsRfcOrSingle :=
  Proofs.C13More.parse_attrs_rfc depth s f h

/-- Known finding F-C15r "matching rule with options" (confirmed on the Python library; pinned
    by the repository's tests): `(cn:2.5;x:=v)` is accepted and the result carries the matching
    rule `2.5;x`, which is not an RFC 4512 `oid` (RFC 4515 `matchingrule = oid` has no options).
    The deviation is exactly the `;option` suffix — see `accepted_rule_char`. -/
theorem matching_rule_options_known_finding :
    parseFilterText 4 [40, 99, 110, 58, 50, 46, 53, 59, 120, 58, 61, 118, 41]            -- (cn:2.5;x:=v)
        = .ok (.ext (some [50, 46, 53, 59, 120]) (some [99, 110]) [118] false) ∧         -- rule "2.5;x"
      ¬ IsOid [50, 46, 53, 59, 120] :=
  Proofs.C13More.rule_options_witness

/-- **C15, the accepted matching rules**: whenever `from_string` accepts, every matching rule in
    the result is an RFC 4512 `oid`, or an `oid` followed by at least one RFC 4512 option
    (F-C15r), or a single-arc numeric oid possibly with options (F-C15d).  So the deviations
    from "the rule is an RFC 4512 oid" are exactly the two recorded findings.  (Corollary of
    `accepted_attrs_rfc`: an `attributedescription` is `oid options`.) -/
theorem accepted_rule_char (depth : Nat) (s : List Nat) (f : Filter)
    (h : parseFilterText depth s = .ok f) : f.RulesOidUpToFindings :=
  Proofs.C13More.parse_rules_char depth s f h

/-- Observation (not a violation of C13–C15, which do not bound what is accepted beyond the
    attribute clause): `(:dn:=x)` is accepted and yields the extensible match with the dn flag
    only — a tree that no RFC 4515 sentence denotes (`C13.dn_only_extensible_is_no_sentence`);
    it is why `C13.toText_is_sentence_partial` needs `ExtRfc`. -/
theorem accepted_dn_only_finding :
    parseFilterText 4 [40, 58, 100, 110, 58, 61, 120, 41] = .ok (.ext none none [120] true) :=      -- (:dn:=x)
  Proofs.C13More.dn_only_witness

/-! non-vacuity: each alternative of `accepted_rule_char` occurs in an accepted filter -/
example : IsOidWithOptions [50, 46, 53, 59, 120] :=
  ⟨[50, 46, 53], [[120]], IsOid.numeric [[50], [53]] ⟨by decide, by simp [IsNumber]⟩, by simp, by simp; decide, rfl⟩
example : (Filter.ext (some [50, 46, 53, 59, 120]) (some [99, 110]) [118] false).RulesOidUpToFindings :=
  accepted_rule_char 4 _ _ matching_rule_options_known_finding.1
example : parseFilterText 4 [40, 58, 50, 46, 53, 58, 61, 118, 41] = .ok (.ext (some [50, 46, 53]) none [118] false) := by
  rfl                                                                                   -- (:2.5:=v)   oid
example : parseFilterText 4 [40, 58, 49, 58, 61, 118, 41] = .ok (.ext (some [49]) none [118] false) := by
  rfl                                                                                   -- (:1:=v)     F-C15d

/-! non-vacuity: both sides of the disjunction are inhabited, and some strings are rejected -/
example : IsAttrDesc [99, 110, 59, 120] := Proofs.C13More.sample_cn_x
example : IsSingleArcAttr [49, 59, 111] := ⟨[49], [[111]], ⟨by decide, by decide⟩, by simp; decide, rfl⟩
example : validAttr [49, 59, 111] = true := by decide              -- "1;o"   (F-C15d)
example : validAttr [49, 46, 50, 59, 111] = true := by decide      -- "1.2;o"
example : validAttr [48, 49] = false := by decide                  -- "01"
example : parseFilterText 4 [40, 49, 59, 111, 61, 120, 41] = .ok (.eq [49, 59, 111] [120]) := by rfl   -- "(1;o=x)"
example : validAttr [99, 110, 10] = false := by decide             -- "cn\n"

/-- **C15, "offset ≥ 0, length ≥ 0", with Python-`int` arithmetic.**  `parseFilterTextZ`
    (Spec/C13More.lean) is `from_string` written with every subtraction of the Python source
    evaluated in ℤ: the two differences that are *reported* —
    `length - (parens_start or 0)` (unbalanced `(`) and `len(b_filter) - consumed` (trailing
    data) — are carried as integers in `FErrZ.syntax (off len : Int)`; the five that are used as
    an *index or slice length* — `equals_idx - 1`, `attribute_end -= 1`,
    `len(current_view) - read` (`_unpack_simple_filter`), `length - read - 1`
    (`_unpack_complex_filter`), `length - read` (`_unpack_filter`, twice) — fail with `negative`
    if below zero; the comparison `equals_idx == length - 1` is made in ℤ.  The theorem: on
    every input and every recursion budget the shadow returns exactly what the model returns,
    its reports being the model's natural numbers read as integers.  Hence no subtraction of
    the model truncates on any path (at each site subtrahend ≤ minuend).

    Covered: every `-` in `_unpack_filter`, `_unpack_complex_filter`, `_unpack_simple_filter`
    and `from_string`.  Not arithmetic on offsets, hence not shadowed: `len(value_split) - 1`
    in `_unpack_filter_substrings_value` (an index comparison on a non-empty list; the model
    uses `getLast!`/`dropLast`), the hex-digit arithmetic of `hexVal`, and `utf8EncodeChar`.
    Not covered: the shadow, like the model, passes the slice `cur` instead of
    `(view, offset, length)`, so "`view[offset : offset+length]` has `length` octets" is taken
    from the model, not re-proved. -/
theorem syntax_report_no_truncation (depth : Nat) (s : List Nat) :
    parseFilterTextZ depth s = liftZ (parseFilterText depth s) :=
  Proofs.C13More.parseFilterTextZ_eq depth s

/-- … so a negative integer is never used as an index or slice length … -/
theorem no_negative_index (depth : Nat) (s : List Nat) : parseFilterTextZ depth s ≠ .error .negative :=
  Proofs.C13More.parseZ_not_negative depth s

/-- … and C15 `total` holds with integer reports: the result is a filter or a syntax error
    whose integer offset and integer length are both ≥ 0 (now a statement with content, since
    `Int` can be negative) and whose span lies inside the input. -/
theorem total_int (depth : Nat) (s : List Nat) :
    (∃ f, parseFilterTextZ depth s = .ok f) ∨
      (∃ off len : Int, parseFilterTextZ depth s = .error (.syntax off len) ∧
        0 ≤ off ∧ 0 ≤ len ∧ off + len ≤ ((utf8Encode (pyStrip s)).length : Int)) :=
  Proofs.C13More.parseZ_total depth s

/-- the one site that needs a loop invariant, stated on the model itself: when the loop of
    `_unpack_filter` ends with a pending `(` at `p`, then `p` is inside the slice, so the
    reported `cur.length - p` (Model/FilterText.lean, `unpackFilter`) is a true difference.
    (The other sites are guarded in the text of the model: `consumed < b.length`,
    `¬ read ≥ cur.length`, `indexOf … = some eq` with `eq ≠ 0`.) -/
theorem unbalanced_paren_inside (depth : Nat) (cur : Bytes) (off : Nat) (st : FLoop) (p : Nat)
    (h : filterLoop (unpackFilter depth) cur off cur.length ⟨0, none, none⟩ = .ok st)
    (hp : st.parens = some p) : p ≤ cur.length :=
  Proofs.C13More.filterLoop_parens_le depth cur off st p h hp

/-! non-vacuity: `(&(=` is the input for which the library once reported length −1
    (fix 20a1238: `length - (offset + parens_start)`); the shadow reports 2, 1, and a negative
    report is a different value of `FErrZ` -/
example : parseFilterTextZ 10 [40, 38, 40, 61] = .error (.syntax 2 1) := by rfl
example : FErrZ.syntax 2 (-1) ≠ FErrZ.syntax 2 1 := by decide
example : natOf (-1) = .error .negative := by rfl
example : parseFilterTextZ 10 [40, 99, 110, 61, 42, 41, 120] = .error (.syntax 6 1) := by rfl   -- trailing data
example : ∃ st, filterLoop (unpackFilter 3) [40, 32] 0 2 ⟨0, none, none⟩ = .ok st ∧ st.parens = some 0 := by
  exact ⟨_, by rfl, rfl⟩

end Verif.C15
