/-
C11 — a client and a server session interoperate under any interleaving.
-/
import Verif.Spec.Joint
import Verif.Proofs.Joint

namespace Verif.C11
open Verif Verif.Joint

/-- Stream integrity, for every admissible joint history — any interleaving of client calls,
    server calls, partial flushes and partial deliveries, any chunking: as long as the receiving
    side has not been closed, the messages handed to its application so far, followed by the
    messages still in flight (buffered residue ++ pipe ++ not yet flushed output, which always
    parse back completely), are exactly the messages the peer's accepted calls sent, in order
    and as equal values.  So every message sent is received exactly once, in order. -/
theorem stream_integrity (depth : Nat) (sts : List JStep) (h : AdmissibleRun depth {} sts) :
    let y := (jrun depth {} sts).1
    (y.s.state ≠ .closed → ∃ pending,
        parseLoop {} depth (y.s.residue ++ y.toS ++ y.c.out).length (y.s.residue ++ y.toS ++ y.c.out) = .ok (pending, []) ∧
        y.sentC.map fillRaw = y.gotS ++ pending) ∧
    (y.c.state ≠ .closed → ∃ pending,
        parseLoop {} depth (y.c.residue ++ y.toC ++ y.s.out).length (y.c.residue ++ y.toC ++ y.s.out) = .ok (pending, []) ∧
        y.sentS.map fillRaw = y.gotC ++ pending) :=
  Proofs.joint_stream_integrity depth sts h

/-- once everything has been delivered, each side has received exactly what the other sent -/
theorem all_delivered (depth : Nat) (sts : List JStep) (h : AdmissibleRun depth {} sts)
    (hq : Quiescent (jrun depth {} sts).1) :
    let y := (jrun depth {} sts).1
    (y.s.state ≠ .closed → y.gotS = y.sentC.map fillRaw) ∧ (y.c.state ≠ .closed → y.gotC = y.sentS.map fillRaw) :=
  Proofs.joint_all_delivered depth sts h hq

/-- No protocol error occurs in an admissible joint history other than the designed
    termination: every call is accepted, every flush returns bytes, and every delivery returns
    messages — unless the client has sent an unbind, whose arrival closes the server. -/
theorem no_protocol_error (depth : Nat) (sts : List JStep) (h : AdmissibleRun depth {} sts) :
    ∀ o ∈ (jrun depth {} sts).2,
      o.accepted = true ∨ (∃ b, o = .bytes b) ∨ (∃ ms, o = .msgs ms) ∨
        (unbindSent (jrun depth {} sts).1 ∧ ∃ n, o = .protocolError n) :=
  Proofs.joint_no_protocol_error depth sts h

/-- Whenever all bytes have been delivered and neither side has terminated, both sides agree on
    the session state (treating not-yet-opened and opened alike) and on which operations are
    still in progress. -/
theorem agreement_at_quiescence (depth : Nat) (sts : List JStep) (h : AdmissibleRun depth {} sts)
    (hq : Quiescent (jrun depth {} sts).1) :
    let y := (jrun depth {} sts).1
    y.c.state ≠ .closed → y.s.state ≠ .closed →
      stateClass y.c.state = stateClass y.s.state ∧ sameSet y.c.outstanding y.s.outstanding :=
  Proofs.joint_agreement depth sts h hq

/-! non-vacuity: a pipelined conversation with partial deliveries that ends quiescent -/
def sample : List JStep :=
  [.callC (.search [] 2 0 0 0 false none [] []), .callC (.extended [49, 46, 50] none []), .flushC (some 5), .deliverS 3,
   .flushC none, .deliverS 2, .deliverS 1000, .callS (.entry 1 [] [] []), .callS (.extendedResponse 2 none none 0 [] [] []),
   .flushS none, .deliverC 7, .callS (.done 1 0 [] [] []), .flushS none, .deliverC 1000]

example : (jrun defaultDepth {} sample).1.gotS.length = 2 ∧ (jrun defaultDepth {} sample).1.gotC.length = 3 ∧
    (jrun defaultDepth {} sample).1.c.outstanding = [] ∧ (jrun defaultDepth {} sample).1.s.outstanding = [] := by
  decide

end Verif.C11
