/-
C18 — parsing cost grows polynomially with input size.

For every regular expression the library compiles (regenerated from the source into
`Generated/Regexes.lean` on every run) the size of the complete backtracking search tree
(`Re.work`, an upper bound on the steps of a backtracking engine on ANY input, matching or
not) is bounded by a fixed low-degree polynomial in the input length.  Hence no family of
inputs makes the matcher's work double with each added character.
-/
import Verif.Model.Re
import Verif.Generated.Regexes
import Verif.Proofs.ReSmall
import Verif.Proofs.ReSchema

namespace Verif.C18
open Verif

/-- filter attribute description pattern (`_ATTRIBUTE_PATTERN`) -/
theorem filter_attribute_pattern : ∃ c, PolyBounded Regexes.filter_ATTRIBUTE_PATTERN c 2 :=
  Proofs.attrPattern_bounded

theorem filter_hex_pattern : ∃ c, PolyBounded Regexes.filter_HEX_PATTERN c 0 := Proofs.hexPattern_bounded
theorem filter_escape_pattern : ∃ c, PolyBounded Regexes.filter_LDAP_ESCAPE_PATTERN c 0 := Proofs.ldapEscape_bounded
theorem filter_string_escape_pattern : ∃ c, PolyBounded Regexes.filter_STRING_ESCAPE_PATTERN c 0 := Proofs.stringEscape_bounded
theorem schema_encode_qdstring : ∃ c, PolyBounded Regexes.schema_encode_qdstring c 0 := Proofs.encodeQd_bounded
theorem schema_parse_qdstring : ∃ c, PolyBounded Regexes.schema_parse_qdstring c 0 := Proofs.parseQd_bounded
theorem schema_b16decode_pattern : ∃ c, PolyBounded Regexes.schema_rplcr_base64 c 0 := Proofs.b16_bounded
theorem schema_noidlen_match : ∃ c, PolyBounded Regexes.schema_NOIDLEN_MATCH c 2 := Proofs.noidlenMatch_bounded

/-- the three description patterns (after the repairs of the nested / ambiguous repetitions) -/
theorem schema_object_class : ∃ c, PolyBounded Regexes.schema_OBJECT_CLASS_DESCRIPTION c 3 := Proofs.objectClass_bounded
theorem schema_attribute_type : ∃ c, PolyBounded Regexes.schema_ATTRIBUTE_TYPE_DESCRIPTION c 3 := Proofs.attributeType_bounded
theorem schema_dit_content_rule : ∃ c, PolyBounded Regexes.schema_DIT_CONTENT_RULE_DESCRIPTION c 3 := Proofs.ditContentRule_bounded

/-- EVERY pattern the library compiles is covered (the list is regenerated with the patterns:
    a new pattern makes this theorem fail until it has a bound of its own) -/
theorem every_pattern_bounded : ∀ p ∈ Regexes.allPatterns, ∃ c d, d ≤ 3 ∧ PolyBounded p.2 c d :=
  Proofs.allPatterns_bounded

/-- `re.sub` tries the pattern at every position: its search tree is at most (n+1) times larger -/
theorem sub_cost (r : Re) (c d : Nat) (h : PolyBounded r c d) (s : List Nat) :
    ((List.range (s.length + 1)).map (fun i => Re.work r (s.drop i))).sum ≤ c * (s.length + 1) ^ (d + 1) :=
  Proofs.sub_cost r c d h s

/-- negative side (model-level witness family): the nested repetition the library used before
    the repair, `'([^'\\]+)+'`, has a search tree that at least doubles with every added
    character on the unterminated inputs `'aaa…a` (opening quote, then `n` letters, no closing
    quote; without the opening quote the pattern fails at once) -/
theorem nested_plus_is_exponential (n : Nat) :
    2 ^ n ≤ Re.work Proofs.nestedPlusPattern (39 :: List.replicate n 97) :=
  Proofs.nestedPlus_exponential n

end Verif.C18
