/-
Additional statements for C18, C19 and C01 (statement audit, item 10 "small items").

* C18: the regenerated patterns contain no `unsupported` node; every pattern has a polynomial
  bound with NUMERAL coefficient and degree.
* C19: what `register_*` does to the registry; an unregistered kind is unknown whatever else is
  registered; the `receive`-level consequence.
* C01: the case `Control.WF` cuts out — a caller-built generic control carrying a library-known
  OID — stated as theorems about `decMsg (encMsg m)`.

Statements only; proofs in Proofs/SmallMore*.lean, vocabulary in Spec/SmallMore.lean.
-/
import Verif.Spec.SmallMore
import Verif.Proofs.SmallMore
import Verif.Proofs.SmallMoreC18

/-! # C18 -/

namespace Verif.C18
open Verif

/-- C18, soundness of the translation the cost theorems are about: no pattern of the regenerated
    list contains a construct the translator could not express (`Re.unsupported` has no results
    and unit cost in the model, so a bound for a term containing it would say nothing about the
    library's pattern).  Proved by evaluation: nothing about the particular patterns is used. -/
theorem no_unsupported : ∀ p ∈ Regexes.allPatterns, p.2.hasUnsupported = false :=
  Proofs.SmallMore.no_unsupported

/-- the same for the group-keeping translations used by the schema scanner (Props/TiesSchema) -/
theorem no_unsupported_groups : ∀ p ∈ Regexes.allGroupPatterns, p.2.1.hasUnsupported = false :=
  Proofs.SmallMore.no_unsupported_groups

/-- `hasUnsupported` is not constantly false -/
example : (Re.cat (.cls [(97, 97)]) (.star (.alt .eps .unsupported))).hasUnsupported = true := rfl

/-- C18 "bounded by a fixed low-degree polynomial", repetition-free patterns, pattern-independent
    form: ANY pattern without a repetition costs at most `Re.treeBound` nodes on every input (a
    constant computed from the pattern alone). -/
theorem starFree_cost (r : Re) (h : r.starFree = true) : PolyBounded r r.treeBound 0 :=
  Proofs.SmallMore.polyBounded_of_starFree r h

/-- … and for the regenerated list that constant is at most 9 (by evaluation: a changed or new
    repetition-free pattern is re-evaluated, not re-proved). -/
theorem starFree_patterns_cost :
    ∀ p ∈ Regexes.allPatterns, p.2.starFree = true → ∀ s, Re.work p.2 s ≤ 9 :=
  Proofs.SmallMore.starFree_patterns_bounded

/-! ### explicit coefficients, pattern by pattern

`PolyBounded p C d` is `∀ s, Re.work p s ≤ C * (s.length + 1) ^ d`.  The coefficients are those of
the derivations behind Props/C18.lean (`∃ c`), replayed in a calculus that computes its constants
(Proofs/SmallMoreRe*.lean) and evaluated by the kernel.  They are upper bounds of the derivation,
not tight. -/

/-- filter attribute description pattern: at most `347·(n+1)²` nodes -/
theorem filter_attribute_pattern_explicit : PolyBounded Regexes.filter_ATTRIBUTE_PATTERN 347 2 :=
  Proofs.SmallMore.attr_explicit
/-- filter value escape pattern `\\.{,2}`: at most 9 nodes -/
theorem filter_escape_pattern_explicit : PolyBounded Regexes.filter_LDAP_ESCAPE_PATTERN 9 0 :=
  Proofs.SmallMore.ldapEscape_explicit
theorem filter_hex_pattern_explicit : PolyBounded Regexes.filter_HEX_PATTERN 7 0 :=
  Proofs.SmallMore.hex_explicit
theorem filter_string_escape_pattern_explicit : PolyBounded Regexes.filter_STRING_ESCAPE_PATTERN 1 0 :=
  Proofs.SmallMore.stringEscape_explicit
theorem schema_encode_qdstring_explicit : PolyBounded Regexes.schema_encode_qdstring 1 0 :=
  Proofs.SmallMore.encodeQd_explicit
theorem schema_parse_qdstring_explicit : PolyBounded Regexes.schema_parse_qdstring 9 0 :=
  Proofs.SmallMore.parseQd_explicit
theorem schema_b16decode_pattern_explicit : PolyBounded Regexes.schema_rplcr_base64 1 0 :=
  Proofs.SmallMore.b16_explicit
theorem schema_noidlen_match_explicit : PolyBounded Regexes.schema_NOIDLEN_MATCH 265 2 :=
  Proofs.SmallMore.noidlen_explicit
/-- the three schema description patterns -/
theorem schema_object_class_explicit : PolyBounded Regexes.schema_OBJECT_CLASS_DESCRIPTION 2301651 3 :=
  Proofs.SmallMore.objectClass_explicit
theorem schema_attribute_type_explicit :
    PolyBounded Regexes.schema_ATTRIBUTE_TYPE_DESCRIPTION 10934917 3 :=
  Proofs.SmallMore.attributeType_explicit
theorem schema_dit_content_rule_explicit :
    PolyBounded Regexes.schema_DIT_CONTENT_RULE_DESCRIPTION 1883547 3 :=
  Proofs.SmallMore.ditContentRule_explicit

/-- C18 for EVERY pattern the library compiles, with one numeral pair: the search tree has at most
    `10934917·(n+1)³` nodes on an input of `n` characters (the list is regenerated with the
    patterns: a new pattern makes this theorem fail until it has a bound of its own). -/
theorem every_pattern_explicit : ∀ p ∈ Regexes.allPatterns, PolyBounded p.2 10934917 3 :=
  Proofs.SmallMore.allPatterns_explicit

/-- reading of an explicit bound at a length limit: inputs of at most `n` characters cost at most
    `C·(n+1)^d` nodes -/
theorem cost_at_length (r : Re) (c d : Nat) (h : PolyBounded r c d) (s : List Nat) (n : Nat)
    (hs : s.length ≤ n) : Re.work r s ≤ c * (n + 1) ^ d :=
  Nat.le_trans (h s) (Nat.mul_le_mul_left c (Nat.pow_le_pow_left (Nat.succ_le_succ hs) d))

/-- e.g. an attribute description of at most 255 characters costs at most 22 740 992 nodes -/
example (s : List Nat) (hs : s.length ≤ 255) : Re.work Regexes.filter_ATTRIBUTE_PATTERN s ≤ 22740992 :=
  cost_at_length _ 347 2 filter_attribute_pattern_explicit s 255 hs

/-- `re.sub` with the escape pattern over a value of `n` octets: at most `9·(n+1)` nodes in total
    (instance of `C18.sub_cost` at the explicit coefficient) -/
theorem escape_sub_cost_explicit (s : List Nat) :
    ((List.range (s.length + 1)).map (fun i => Re.work Regexes.filter_LDAP_ESCAPE_PATTERN (s.drop i))).sum
      ≤ 9 * (s.length + 1) ^ 1 :=
  Proofs.sub_cost _ 9 0 filter_escape_pattern_explicit s

end Verif.C18

/-! # C19 -/

namespace Verif.C19
open Verif

/-- C19 "registering … takes effect": after `register_<k>` the session's flag `k` is set — whether
    the call was accepted (flag was clear) or refused as a duplicate (flag was already set) — and
    the flags of the other kinds are unchanged. -/
theorem register_sets_flag (s : Sess) (k : RegKind) :
    (step s (.register k)).1.regs.get k = true ∧
      ∀ j, j ≠ k → (step s (.register k)).1.regs.get j = s.regs.get j :=
  ⟨Proofs.SmallMore.register_flag s k, fun j hj => Proofs.SmallMore.register_other s k j hj⟩

/-- a first registration is accepted (returns `None`): a model whose first registration is
    refused or a no-op is excluded together with `register_sets_flag` -/
theorem register_fresh_accepted (s : Sess) (k : RegKind) (h : s.regs.get k = false) :
    (step s (.register k)).2 = .unit :=
  Proofs.SmallMore.register_outcome_fresh s k h

/-- the outcome is decided by the flag alone: a set flag means ValueError and no change
    (generalises `duplicate_registration_rejected` to any way the flag got set) -/
theorem register_dup_rejected (s : Sess) (k : RegKind) (h : s.regs.get k = true) :
    (step s (.register k)).2 = .valueError ∧ (step s (.register k)).1 = s :=
  Proofs.SmallMore.register_outcome_dup s k h

/-! non-vacuity: a session with another kind registered -/
example :
    let s : Sess := { Sess.init .server with regs := { control := true } }
    s.regs.get .filter = false ∧ (step s (.register .filter)).1.regs = { control := true, filter := true } := by
  decide

/-- C19 "per session only", decoder side: each decoder consults the flag of its own kind and
    nothing else of the registry — registering other kinds never changes what a filter / a
    credential / a control decodes to. -/
theorem filter_decoding_own_flag (regs regs' : Regs) (h : regs.filter = regs'.filter) (depth : Nat)
    (bs : Bytes) : decFilter regs depth bs = decFilter regs' depth bs :=
  Proofs.SmallMore.decFilter_congr regs regs' h depth bs

theorem cred_decoding_own_flag (regs regs' : Regs) (h : regs.auth = regs'.auth) (bs : Bytes) :
    decCred regs bs = decCred regs' bs :=
  Proofs.SmallMore.decCred_congr regs regs' h bs

theorem control_decoding_own_flag (regs regs' : Regs) (h : regs.control = regs'.control) (bs : Bytes) :
    decControl regs bs = decControl regs' bs :=
  Proofs.SmallMore.decControl_congr regs regs' h bs

/-- `unregistered_filter_unknown` for ANY registry whose filter flag is clear (other kinds may be
    registered): the custom choice is an unknown filter type, exactly as with the empty registry -/
theorem unregistered_filter_unknown_any (regs : Regs) (h : regs.filter = false) (v rest : Bytes)
    (depth : Nat) : decFilter regs (depth + 1) (encFilter (.custom v) ++ rest) = .error .notImpl :=
  Proofs.SmallMore.decFilter_custom_unreg regs h v rest depth

theorem unregistered_cred_unknown_any (regs : Regs) (h : regs.auth = false) (v rest : Bytes) :
    decCred regs (encCred (.custom v) ++ rest) = .error .notImpl :=
  Proofs.SmallMore.decCred_custom_unreg regs h v rest

/-- an unregistered custom control stays an ordinary (generic) control with that OID -/
theorem unregistered_control_generic_any (regs : Regs) (h : regs.control = false) (crit : Bool)
    (data : Bytes) (raw : Option Bytes) (rest : Bytes) :
    decControl regs (encControl (.custom crit data raw) ++ rest)
      = .ok (.generic Facts.oidCustomControl crit (some (Facts.customControlMagic ++ data)), rest) :=
  Proofs.SmallMore.decControl_custom_unreg regs h crit data raw rest

example : ({ control := true, auth := true } : Regs).filter = false := rfl

/-- message level: a custom filter ANYWHERE in the filter tree of a search request makes the
    message undecodable for a session without the filter registration — whatever the rest of the
    message looks like (no well-formedness assumed), whatever else is registered, whatever the
    depth budget; and the failure is a definite one, not "more data needed". -/
theorem unregistered_filter_message_fails (regs : Regs) (h : regs.filter = false) (depth : Nat) (m : Msg)
    (rest : Bytes) (hm : m.op.hasCustomFilter = true) :
    ∃ e, e ≠ Err.notEnough ∧ decMsg regs depth (encMsg m ++ rest) = .error e :=
  Proofs.SmallMore.decMsg_of_decOp_error regs depth m rest
    (Proofs.SmallMore.decOp_customFilter regs h depth m.op hm)

theorem unregistered_cred_message_fails (regs : Regs) (h : regs.auth = false) (depth : Nat) (m : Msg)
    (rest : Bytes) (hm : m.op.hasCustomCred = true) :
    ∃ e, e ≠ Err.notEnough ∧ decMsg regs depth (encMsg m ++ rest) = .error e :=
  Proofs.SmallMore.decMsg_of_decOp_error regs depth m rest
    (Proofs.SmallMore.decOp_customCred regs h depth m.op hm)

/-- `receive` level: an open session without the filter registration whose buffer (bytes kept
    from earlier calls plus the new chunk) starts with a search request containing a custom
    filter raises ProtocolError (with the role's notification) and is closed; the bytes stay in
    its buffer.  The session may have any other kind registered. -/
theorem recv_unregistered_filter (depth : Nat) (s : Sess) (chunk : Bytes) (m : Msg) (tail : Bytes)
    (hs : s.state ≠ .closed) (hreg : s.regs.filter = false)
    (hbuf : s.residue ++ chunk = encMsg m ++ tail) (hm : m.op.hasCustomFilter = true) :
    recv depth s chunk
      = (closeSess { s with residue := s.residue ++ chunk },
          .protocolError (notificationFor s.role false false)) :=
  Proofs.SmallMore.recv_of_decMsg_error depth s chunk m tail hs hbuf
    (unregistered_filter_message_fails s.regs hreg depth m tail hm)

/-- the same for a bind request with the custom credential and no credential registration -/
theorem recv_unregistered_cred (depth : Nat) (s : Sess) (chunk : Bytes) (m : Msg) (tail : Bytes)
    (hs : s.state ≠ .closed) (hreg : s.regs.auth = false)
    (hbuf : s.residue ++ chunk = encMsg m ++ tail) (hm : m.op.hasCustomCred = true) :
    recv depth s chunk
      = (closeSess { s with residue := s.residue ++ chunk },
          .protocolError (notificationFor s.role false false)) :=
  Proofs.SmallMore.recv_of_decMsg_error depth s chunk m tail hs hbuf
    (unregistered_cred_message_fails s.regs hreg depth m tail hm)

/-- the same through the public entry point `step … (.receive chunk)` -/
theorem step_receive_unregistered_filter (s : Sess) (chunk : Bytes) (m : Msg) (tail : Bytes)
    (hs : s.state ≠ .closed) (hreg : s.regs.filter = false)
    (hbuf : s.residue ++ chunk = encMsg m ++ tail) (hm : m.op.hasCustomFilter = true) :
    step s (.receive chunk)
      = (closeSess { s with residue := s.residue ++ chunk },
          .protocolError (notificationFor s.role false false)) :=
  recv_unregistered_filter defaultDepth s chunk m tail hs hreg hbuf hm

theorem step_receive_unregistered_cred (s : Sess) (chunk : Bytes) (m : Msg) (tail : Bytes)
    (hs : s.state ≠ .closed) (hreg : s.regs.auth = false)
    (hbuf : s.residue ++ chunk = encMsg m ++ tail) (hm : m.op.hasCustomCred = true) :
    step s (.receive chunk)
      = (closeSess { s with residue := s.residue ++ chunk },
          .protocolError (notificationFor s.role false false)) :=
  recv_unregistered_cred defaultDepth s chunk m tail hs hreg hbuf hm

/-- message level for controls: a custom control sent to a session without the control
    registration arrives as the generic control with that OID and the same value octets -/
theorem unregistered_control_message (regs : Regs) (h : regs.control = false) (depth : Nat) (id : Int)
    (op : Op) (crit : Bool) (data : Bytes) (raw : Option Bytes) (rest : Bytes)
    (hop : Op.WF regs op) (hd : op.filterDepth < depth) :
    decMsg regs depth (encMsg ⟨id, op, [.custom crit data raw]⟩ ++ rest)
      = .ok (⟨id, op, [.generic Facts.oidCustomControl crit (some (Facts.customControlMagic ++ data))]⟩,
          rest) := by
  have hl : Msg.WFLoose regs ⟨id, op, [.custom crit data raw]⟩ :=
    ⟨hop, fun c hc => by
      simp only [List.mem_singleton] at hc; subst hc; exact Proofs.oidCustomControl_text⟩
  rw [Proofs.SmallMore.decMsg_received regs _ rest depth hl hd]
  simp only [receivedControls, Proofs.SmallMore.received_custom_unreg regs h]

/-! non-vacuity: a server session that registered the custom CONTROL only receives, in two chunks,
    a search request whose filter hides a custom filter under `and`/`not` -/
def sampleSearch : Msg :=
  ⟨1, .searchReq [] 2 0 0 0 false (.and [.present [99, 110], .not (.custom [1, 2])]) [], []⟩

example :
    let s : Sess := { Sess.init .server with regs := { control := true }, residue := (encMsg sampleSearch).take 5 }
    recv 10 s ((encMsg sampleSearch).drop 5 ++ [48])
      = (closeSess { s with residue := encMsg sampleSearch ++ [48] }, .protocolError .notice) := by
  intro s
  have h := recv_unregistered_filter 10 s ((encMsg sampleSearch).drop 5 ++ [48]) sampleSearch [48]
    (by decide) rfl (by simp [s, ← List.append_assoc, List.take_append_drop]) rfl
  rw [h]
  simp [s, ← List.append_assoc, List.take_append_drop, notificationFor, Sess.init]

/-- … and a fresh server with the FILTER registered receives a bind with the custom credential -/
example :
    let s : Sess := { Sess.init .server with regs := { filter := true } }
    let m : Msg := ⟨1, .bindReq 3 [] (.custom [7]), []⟩
    step s (.receive (encMsg m)) = (closeSess { s with residue := encMsg m }, .protocolError .notice) := by
  intro s m
  have h := step_receive_unregistered_cred s (encMsg m) m [] (by decide) rfl (by simp [s, Sess.init]) rfl
  rw [h]
  simp [s, notificationFor, Sess.init]

end Verif.C19

/-! # C01 -/

namespace Verif.C01
open Verif

/-- C01 WITHOUT the domain cut on generic controls ("any controls"): for every message whose
    operation is well-formed and whose controls are arbitrary objects (a generic control may
    carry ANY OID, also a library-known one, with any value or none), decoding the encoding
    yields the message with every control replaced by the receiver's reading of its wire triple
    (`Control.received`: the typed class for a known OID), or fails with the error of the first
    control whose value does not fit its OID (a truncation error inside the complete message
    is reported as ValueError).  Exactly the message's bytes are consumed. -/
theorem decode_encode_any_controls (regs : Regs) (m : Msg) (rest : Bytes) (depth : Nat)
    (h : m.WFLoose regs) (hd : m.op.filterDepth < depth) :
    decMsg regs depth (encMsg m ++ rest) =
      (match receivedControls regs m.controls with
       | .ok cs => .ok (⟨m.id, m.op, cs⟩, rest)
       | .error .notEnough => .error .valueError
       | .error e => .error e) :=
  Proofs.SmallMore.decMsg_received regs m rest depth h hd

/-- the domain of `decode_encode` is contained in this one, and there the receiver's reading is
    `fillRaw`: `decode_encode_any_controls` generalises `decode_encode` -/
theorem wf_is_loose (regs : Regs) (m : Msg) (h : m.WF regs) :
    m.WFLoose regs ∧ receivedControls regs m.controls = .ok (fillRaw m).controls :=
  ⟨Proofs.SmallMore.WFLoose_of_WF regs m h, Proofs.SmallMore.receivedControls_of_WF regs m.controls h.2⟩

/-- single-control form: the decoder's result on ANY written control is the receiver's reading -/
theorem control_decode_encode (regs : Regs) (c : Control) (rest : Bytes) (h : IsText (controlOid c)) :
    decControl regs (encControl c ++ rest) =
      (match Control.received regs c with
       | .ok c' => .ok (c', rest)
       | .error e => .error e) :=
  Proofs.SmallMore.decControl_received regs c rest h

/-- (i) "the representation changes, not the information": whenever the receiver's reading
    succeeds, the object it builds has the same OID and criticality, and its `value` attribute is
    exactly the value octets the sender's object put on the wire. -/
theorem received_preserves_wire (regs : Regs) (c c' : Control) (h : Control.received regs c = .ok c') :
    controlOid c' = controlOid c ∧ controlCrit c' = controlCrit c ∧ c'.valueAttr = controlValue c :=
  Proofs.SmallMore.received_wire regs c c' h

/-- (i) the deviation itself, paged results: a caller-built GENERIC control with the paged-results
    OID whose value parses as `SEQUENCE { size, cookie }` comes back as the TYPED control with
    those fields; the received octets are kept as its `value`. -/
theorem generic_known_oid_deviation (regs : Regs) (crit : Bool) (value : Option Bytes) (size : Int)
    (cookie : Bytes) (h : decPagedValue (value.getD []) = .ok (size, cookie)) :
    Control.received regs (.generic Facts.oidPaged crit value) = .ok (.paged crit size cookie value) :=
  Proofs.SmallMore.received_generic_paged_ok regs crit value size cookie h

/-- (i) at message level: the message decodes, with the generic control replaced by the typed one -/
theorem generic_known_oid_deviation_message (regs : Regs) (id : Int) (op : Op) (crit : Bool)
    (value : Option Bytes) (size : Int) (cookie : Bytes) (rest : Bytes) (depth : Nat)
    (hop : Op.WF regs op) (hd : op.filterDepth < depth)
    (h : decPagedValue (value.getD []) = .ok (size, cookie)) :
    decMsg regs depth (encMsg ⟨id, op, [.generic Facts.oidPaged crit value]⟩ ++ rest)
      = .ok (⟨id, op, [.paged crit size cookie value]⟩, rest) := by
  have hl : Msg.WFLoose regs ⟨id, op, [.generic Facts.oidPaged crit value]⟩ :=
    ⟨hop, fun c hc => by
      simp only [List.mem_singleton] at hc; subst hc; exact Proofs.oidPaged_text⟩
  rw [decode_encode_any_controls regs _ rest depth hl hd]
  simp only [receivedControls, generic_known_oid_deviation regs crit value size cookie h]

/-- … in particular with the canonical value: the generic control and the typed control a caller
    would build for `(size, cookie)` have THE SAME BYTES, and both decode to the typed control
    with its raw value filled in — no decoder could return the generic object. -/
theorem generic_paged_same_bytes (regs : Regs) (crit : Bool) (size : Int) (cookie : Bytes)
    (raw : Option Bytes) :
    encControl (.generic Facts.oidPaged crit (some (pagedValue size cookie)))
        = encControl (.paged crit size cookie raw) ∧
      Control.received regs (.generic Facts.oidPaged crit (some (pagedValue size cookie)))
        = .ok (fillRawControl (.paged crit size cookie raw)) :=
  ⟨rfl, Proofs.SmallMore.received_generic_paged_canonical regs crit size cookie⟩

/-- (i) the two value-less Active Directory controls: any value (or none) is accepted and kept -/
theorem generic_showDeleted_deviation (regs : Regs) (crit : Bool) (value : Option Bytes) :
    Control.received regs (.generic Facts.oidShowDeleted crit value) = .ok (.showDeleted crit value) :=
  Proofs.SmallMore.received_generic_showDeleted regs crit value

theorem generic_showDeactivated_deviation (regs : Regs) (crit : Bool) (value : Option Bytes) :
    Control.received regs (.generic Facts.oidShowDeactivated crit value)
      = .ok (.showDeactivated crit value) :=
  Proofs.SmallMore.received_generic_showDeactivated regs crit value

/-- (i)/(ii) the registered custom control's OID on a generic control: typed when the value starts
    with the magic, ValueError otherwise (absent value included) -/
theorem generic_custom_oid_deviation (regs : Regs) (hr : regs.control = true) (crit : Bool)
    (value : Option Bytes) :
    Control.received regs (.generic Facts.oidCustomControl crit value) =
      if Facts.customControlMagic.isPrefixOf (value.getD []) then
        .ok (.custom crit ((value.getD []).drop Facts.customControlMagic.length) value)
      else .error .valueError :=
  Proofs.SmallMore.received_generic_custom regs hr crit value

/-- (ii) paged-results OID with a value that does NOT parse (absent, truncated, garbage): the
    control does not decode, with the parser's error … -/
theorem generic_paged_invalid (regs : Regs) (crit : Bool) (value : Option Bytes) (e : Err)
    (h : decPagedValue (value.getD []) = .error e) :
    Control.received regs (.generic Facts.oidPaged crit value) = .error e :=
  Proofs.SmallMore.received_generic_paged_error regs crit value e h

/-- … and the whole message is rejected: the round trip FAILS for such a message (the recorded
    deviation F-C01), wherever the control stands among otherwise well-formed controls. -/
theorem generic_paged_invalid_message (regs : Regs) (m : Msg) (rest : Bytes) (depth : Nat)
    (pre post : List Control) (crit : Bool) (value : Option Bytes) (e : Err)
    (hop : Op.WF regs m.op) (hd : m.op.filterDepth < depth)
    (hcs : m.controls = pre ++ .generic Facts.oidPaged crit value :: post)
    (hpre : ∀ x ∈ pre, x.WF regs) (hpost : ∀ x ∈ post, IsText (controlOid x))
    (hv : decPagedValue (value.getD []) = .error e) :
    decMsg regs depth (encMsg m ++ rest) = .error (if e = .notEnough then .valueError else e) :=
  Proofs.SmallMore.decMsg_generic_paged_bad regs m rest depth pre post crit value e hop hd hcs hpre hpost hv

/-- the concrete witness of the audit: `LDAPControl(paged OID, value=None)` on any well-formed
    operation encodes, and its encoding is rejected with ValueError -/
theorem generic_paged_none_witness (regs : Regs) (id : Int) (op : Op) (crit : Bool) (rest : Bytes)
    (depth : Nat) (hop : Op.WF regs op) (hd : op.filterDepth < depth) :
    decMsg regs depth (encMsg ⟨id, op, [.generic Facts.oidPaged crit none]⟩ ++ rest)
      = .error .valueError :=
  generic_paged_invalid_message regs ⟨id, op, [.generic Facts.oidPaged crit none]⟩ rest depth [] [] crit
    none .notEnough hop hd rfl (fun _ h => by cases h) (fun _ h => by cases h)
    Proofs.SmallMore.decPagedValue_nil

/-! non-vacuity / concrete instances -/

/-- the witness on an unbind request, evaluated -/
example : decMsg {} 5 (encMsg ⟨1, .unbind, [.generic Facts.oidPaged true none]⟩) = .error .valueError :=
  generic_paged_none_witness {} 1 .unbind true [] 5 trivial (by decide)

/-- garbage value -/
example : decPagedValue ((some [1, 2, 3] : Option Bytes).getD []) = .error .valueError := by decide

/-- a valid but non-canonical value (long-form length): the typed control comes back, so the
    round trip changes the object; re-encoding the result does not even reproduce the bytes -/
example :
    Control.received {} (.generic Facts.oidPaged true (some [48, 129, 5, 2, 1, 0, 4, 0]))
        = .ok (.paged true 0 [] (some [48, 129, 5, 2, 1, 0, 4, 0])) ∧
      encControl (.paged true 0 [] (some [48, 129, 5, 2, 1, 0, 4, 0]))
        ≠ encControl (.generic Facts.oidPaged true (some [48, 129, 5, 2, 1, 0, 4, 0])) := by
  refine ⟨generic_known_oid_deviation {} true _ 0 [] (by decide), by decide⟩

/-- a message in the new domain but outside the old one -/
example :
    let m : Msg := ⟨7, .extReq [49, 46, 50] none,
      [.generic Facts.oidShowDeleted false none, .paged true 10 [] none]⟩
    m.WFLoose {} ∧ ¬ m.WF {} := by
  intro m
  refine ⟨⟨by simp [m, Op.WF, IsText]; decide, ?_⟩, ?_⟩
  · intro c hc
    simp only [m, List.mem_cons, List.not_mem_nil, or_false] at hc
    rcases hc with rfl | rfl <;> (unfold IsText; decide)
  · intro h
    have := h.2 (.generic Facts.oidShowDeleted false none) (by simp [m])
    exact this.2.2.1 rfl

end Verif.C01
