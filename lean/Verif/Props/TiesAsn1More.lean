/-
Additions to `Props/TiesAsn1.lean` (ties between the Lean text generated from `sansldap/asn1.py`,
`Verif/Generated/Asn1Gen.lean`, and the hand model `Verif/Model/Ber.lean`), answering an audit of the
statements of that file:

 1. fuel hypotheses in terms of SIZES: the `while` loops of the writers run once per base-128 /
    base-256 digit, so the ties hold as soon as the fuel exceeds the NUMBER OF OCTETS WRITTEN
    (`(packOctetNumber n).length`, `(packLen content.length).length`, `(intContent v).length`),
    not the value.  `harnessFuel = 100000` (the fuel `lean/Asn1GenMain.lean` fixes) is shown to cover
    every `n < 128 ^ 99999`, every content shorter than `256 ^ 127`, every integer with at most
    100000 content octets (in particular `|v| < 256 ^ 99998`).  For `_pack_asn1_octet_number` the
    bound is exact (`tie_pack_asn1_octet_number_iff`).
 2. argument ranges Python accepts that no theorem covered: negative tag number in `_pack_asn1`
    (ValueError), negative `num` in `_pack_asn1_octet_number` (Python does not terminate; the generated
    function reports fuel exhaustion for EVERY fuel), `tag` and `header` both given to
    `_read_asn1_integer` / `_read_asn1_boolean`, `_validate_tag` with an arbitrary caller-supplied header.
 3. `consumedOf` / `consumedOfV` keep only the number of octets consumed; `readTLV_rest` shows the
    model's remainder is `bs.drop consumed`, and the `_iff` ties say: the generated function returns
    `(c, k)` iff the model returns `(c, bs.drop k)` with `0 ≤ k ≤ len(bs)`.

Proofs: `Verif/Proofs/Asn1GenMore*.lean`.  Axioms: propext, Classical.choice, Quot.sound.
-/
import Verif.Props.TiesAsn1
import Verif.Proofs.Asn1GenMoreInt
import Verif.Proofs.Asn1GenMoreArgs

namespace Verif.TiesAsn1

open Verif Verif.PyRt Verif.Asn1Gen Verif.Proofs.Asn1Gen
open Verif.Proofs (instDecidableEqExcept)

/-! ## 1. fuel in terms of sizes -/

/-! ### `_pack_asn1_octet_number` -/

/-- fuel above the number of octets written suffices -/
theorem tie_pack_asn1_octet_number_sz (fuel n : Nat) (h : (packOctetNumber n).length < fuel) :
    pack_asn1_octet_number fuel (n : Int) = .ok (packOctetNumber n) :=
  pack_asn1_octet_number_sz fuel n h

/-- … and is necessary: with less fuel the generated loop reports fuel exhaustion -/
theorem tie_pack_asn1_octet_number_exhaust (fuel n : Nat) (h : fuel ≤ (packOctetNumber n).length) :
    pack_asn1_octet_number fuel (n : Int) = .error fuelError :=
  pack_asn1_octet_number_exhaust fuel n h

theorem tie_pack_asn1_octet_number_iff (fuel n : Nat) :
    pack_asn1_octet_number fuel (n : Int) = .ok (packOctetNumber n) ↔ (packOctetNumber n).length < fuel := by
  constructor
  · intro h
    apply Nat.lt_of_not_le
    intro hle
    rw [pack_asn1_octet_number_exhaust fuel n hle] at h
    cases h
  · exact pack_asn1_octet_number_sz fuel n

/-- the number of octets is at most `k` for `n < 128 ^ k`, and at most `⌊log2 n⌋ / 7 + 1` -/
theorem packOctetNumber_length_le_pow (n k : Nat) (h : n < 128 ^ k) : (packOctetNumber n).length ≤ k :=
  packOctetNumber_length_le n k h

theorem packOctetNumber_length_le_log2' (n : Nat) : (packOctetNumber n).length ≤ Nat.log2 n / 7 + 1 :=
  packOctetNumber_length_le_log2 n

theorem tie_pack_asn1_octet_number_log2 (fuel n : Nat) (h : Nat.log2 n / 7 + 1 < fuel) :
    pack_asn1_octet_number fuel (n : Int) = .ok (packOctetNumber n) :=
  pack_asn1_octet_number_sz fuel n (Nat.lt_of_le_of_lt (packOctetNumber_length_le_log2 n) h)

theorem tie_pack_asn1_octet_number_pow (fuel n k : Nat) (hn : n < 128 ^ k) (hk : k < fuel) :
    pack_asn1_octet_number fuel (n : Int) = .ok (packOctetNumber n) :=
  pack_asn1_octet_number_sz fuel n (Nat.lt_of_le_of_lt (packOctetNumber_length_le n k hn) hk)

-- `2 ^ 64` needs 10 octets: fuel 11 is enough (the old hypothesis asked for fuel `> 2 ^ 64`), fuel 10 is not
example : (packOctetNumber (2 ^ 64)).length = 10 := by decide
example : pack_asn1_octet_number 11 (2 ^ 64) = .ok [130, 128, 128, 128, 128, 128, 128, 128, 128, 0] := by decide
example : pack_asn1_octet_number 10 (2 ^ 64) = .error fuelError := by decide
example : Nat.log2 (2 ^ 64) / 7 + 1 < 11 := by decide

/-! ### `_pack_asn1` -/

/-- sharp form: the tag-number loop only runs for `num ≥ 31`, the length loop only for
    `content.length ≥ 128`; each needs fuel for the octets IT writes (the length loop writes
    `(packLen _).length - 1` octets).  `content.length < 256 ^ 127` as in `tie_pack_asn1`. -/
theorem tie_pack_asn1_sharp (fuel cls num : Nat) (cons : Bool) (content : Bytes)
    (hc : cls ≤ 3) (hnum : num < 31 ∨ (packOctetNumber num).length < fuel)
    (hlenf : content.length < 128 ∨ (packLen content.length).length ≤ fuel)
    (hlen : content.length < 256 ^ 127) :
    pack_asn1 fuel (cls : Int) cons (num : Int) content = .ok (packTLV ⟨cls, cons, num⟩ content) :=
  pack_asn1_sz fuel cls num cons content hc hnum hlenf hlen

theorem tie_pack_asn1_sz (fuel cls num : Nat) (cons : Bool) (content : Bytes)
    (hc : cls ≤ 3) (hnum : (packOctetNumber num).length < fuel)
    (hlenf : (packLen content.length).length < fuel)
    (hlen : content.length < 256 ^ 127) :
    pack_asn1 fuel (cls : Int) cons (num : Int) content = .ok (packTLV ⟨cls, cons, num⟩ content) :=
  pack_asn1_sz fuel cls num cons content hc (Or.inr hnum) (Or.inr (Nat.le_of_lt hlenf)) hlen

/-- `(packLen n).length ≤ k + 1` for `n < 256 ^ k`; so under `content.length < 256 ^ 127` any
    fuel `≥ 128` covers the length loop -/
theorem packLen_length_le_pow (n k : Nat) (h : n < 256 ^ k) : (packLen n).length ≤ k + 1 :=
  packLen_length_le n k h

theorem tie_pack_asn1_pow (fuel cls num k : Nat) (cons : Bool) (content : Bytes)
    (hc : cls ≤ 3) (hnum : num < 128 ^ k) (hk : k < fuel) (hf : 128 ≤ fuel)
    (hlen : content.length < 256 ^ 127) :
    pack_asn1 fuel (cls : Int) cons (num : Int) content = .ok (packTLV ⟨cls, cons, num⟩ content) :=
  pack_asn1_sz fuel cls num cons content hc
    (Or.inr (Nat.lt_of_le_of_lt (packOctetNumber_length_le num k hnum) hk))
    (Or.inr (Nat.le_trans (packLen_length_le _ 127 hlen) hf)) hlen

-- tag number 2^64 (10 octets) and 300 content octets (2 length octets + 1): fuel 11
example : pack_asn1 11 2 true (2 ^ 64) [1, 2]
    = .ok [191, 130, 128, 128, 128, 128, 128, 128, 128, 128, 0, 2, 1, 2] := by decide
example : (packLen 300).length = 3 ∧ (packOctetNumber 40).length = 1 := by decide
set_option maxRecDepth 8192 in
example : pack_asn1 3 1 false 40 (List.replicate 300 7)
    = .ok ([0x5F, 40, 0x82, 1, 44] ++ List.replicate 300 7) := by decide
example : pack_asn1 0 1 false 30 [9] = .ok [0x5E, 1, 9] := by decide      -- no loop runs: fuel 0

/-! ### `_pack_asn1_integer`, `_pack_asn1_boolean` -/

/-- the content computation needs fuel `≥` the number of content octets (for every `v : Int`) -/
theorem tie_pack_asn1_integer_content_sz (fuel : Nat) (v : Int) (tag : Option ASN1Tag)
    (h : (intContent v).length ≤ fuel) :
    pack_asn1_integer fuel v tag
      = pack_asn1 fuel (tagOr tag 2).tag_class (tagOr tag 2).is_constructed (tagOr tag 2).tag_number
          (intContent v) :=
  pack_asn1_integer_eq_pack_sz fuel v tag h

/-- the whole writer: fuel `≥` the number of content octets also pays for the length octets -/
theorem tie_pack_asn1_integer_sz (fuel : Nat) (v : Int) (t : Tag) (hc : t.cls ≤ 3)
    (hnum : t.num < 31 ∨ (packOctetNumber t.num).length < fuel)
    (hv : (intContent v).length ≤ fuel) (hlen : (intContent v).length < 256 ^ 127) :
    pack_asn1_integer fuel v (some (ofTag t)) = .ok (packInt v t) :=
  pack_asn1_integer_sz fuel v t hc hnum hv hlen

theorem tie_pack_asn1_integer_default_sz (fuel : Nat) (v : Int)
    (hv : (intContent v).length ≤ fuel) (hlen : (intContent v).length < 256 ^ 127) :
    pack_asn1_integer fuel v none = .ok (packInt v) :=
  pack_asn1_integer_default_sz fuel v hv hlen

/-- `|v| < 256 ^ k` has at most `k + 2` content octets -/
theorem intContent_length_le_pow' (v : Int) (k : Nat) (h : v.natAbs < 256 ^ k) :
    (intContent v).length ≤ k + 2 :=
  intContent_length_le_pow v k h

/-- `_pack_asn1_boolean`: one content octet, no length loop; only a tag number `≥ 31` needs fuel -/
theorem tie_pack_asn1_boolean_sz (fuel : Nat) (b : Bool) (t : Tag) (hc : t.cls ≤ 3)
    (hnum : t.num < 31 ∨ (packOctetNumber t.num).length < fuel) :
    pack_asn1_boolean fuel b (some (ofTag t)) = .ok (packBool b t) := by
  simp only [pack_asn1_boolean, bind_ok, packBool]
  cases b
  · exact pack_asn1_ofTag_sz fuel t [0] hc hnum (Or.inl (by simp)) (by simp)
  · exact pack_asn1_ofTag_sz fuel t [255] hc hnum (Or.inl (by simp)) (by simp)

/-- for EVERY fuel (0 included) -/
theorem tie_pack_asn1_boolean_default_sz (fuel : Nat) (b : Bool) :
    pack_asn1_boolean fuel b none = .ok (packBool b) := by
  have := tie_pack_asn1_boolean_sz fuel b tBool (by simp [tBool, tagUniv]) (Or.inl (by simp [tBool, tagUniv]))
  simpa [pack_asn1_boolean, ASN1Tag_universal_tag, ofTag, tBool, tagUniv] using this

-- `-(2^64)` has 9 content octets: fuel 9 (the old hypothesis asked for fuel `> 2^64 + 2`)
example : (intContent (-(2 ^ 64))).length = 9 := by decide
example : pack_asn1_integer 9 (-(2 ^ 64)) none = .ok [2, 9, 255, 0, 0, 0, 0, 0, 0, 0, 0] := by decide
example : pack_asn1_integer 8 (-(2 ^ 64)) none = .error fuelError := by decide
example : pack_asn1_integer 9 (2 ^ 64) (some (ofTag (tagCtx 3))) = .ok [0x83, 9, 1, 0, 0, 0, 0, 0, 0, 0, 0] := by decide
example : pack_asn1_boolean 0 true none = .ok [1, 1, 255] := by decide
example : pack_asn1_boolean 2 false (some (ofTag (tagCtx 40))) = .ok [0x9F, 40, 1, 0] := by decide

/-! ### one concrete fuel: what `fuel = 100000` (`lean/Asn1GenMain.lean`) covers -/

/-- the fuel the differential harness runs the generated functions with -/
def harnessFuel : Nat := 100000

theorem tie_pack_asn1_octet_number_harness (n : Nat) (h : n < 128 ^ 99999) :
    pack_asn1_octet_number harnessFuel (n : Int) = .ok (packOctetNumber n) :=
  tie_pack_asn1_octet_number_pow harnessFuel n 99999 h (by decide)

/-- every class, every tag number below `128 ^ 99999`, every content shorter than `256 ^ 127` -/
theorem tie_pack_asn1_harness (cls num : Nat) (cons : Bool) (content : Bytes)
    (hc : cls ≤ 3) (hnum : num < 128 ^ 99999) (hlen : content.length < 256 ^ 127) :
    pack_asn1 harnessFuel (cls : Int) cons (num : Int) content = .ok (packTLV ⟨cls, cons, num⟩ content) :=
  tie_pack_asn1_pow harnessFuel cls num 99999 cons content hc hnum (by decide) (by decide) hlen

theorem harness_lt_pow : harnessFuel < 256 ^ 127 := by decide

/-- every integer with at most 100000 content octets, under every tag with number below `128 ^ 99999` -/
theorem tie_pack_asn1_integer_harness (v : Int) (t : Tag) (hc : t.cls ≤ 3) (hnum : t.num < 128 ^ 99999)
    (hv : (intContent v).length ≤ 100000) :
    pack_asn1_integer harnessFuel v (some (ofTag t)) = .ok (packInt v t) :=
  tie_pack_asn1_integer_sz harnessFuel v t hc
    (Or.inr (Nat.lt_of_le_of_lt (packOctetNumber_length_le t.num 99999 hnum) (by decide)))
    hv (Nat.lt_of_le_of_lt hv harness_lt_pow)

theorem tie_pack_asn1_integer_default_harness (v : Int) (hv : (intContent v).length ≤ 100000) :
    pack_asn1_integer harnessFuel v none = .ok (packInt v) :=
  tie_pack_asn1_integer_default_sz harnessFuel v hv (Nat.lt_of_le_of_lt hv harness_lt_pow)

/-- in terms of the value: every `|v| < 256 ^ 99998` -/
theorem tie_pack_asn1_integer_harness_value (v : Int) (t : Tag) (hc : t.cls ≤ 3) (hnum : t.num < 128 ^ 99999)
    (hv : v.natAbs < 256 ^ 99998) :
    pack_asn1_integer harnessFuel v (some (ofTag t)) = .ok (packInt v t) :=
  tie_pack_asn1_integer_harness v t hc hnum (intContent_length_le_pow v 99998 hv)

theorem tie_pack_asn1_integer_default_harness_value (v : Int) (hv : v.natAbs < 256 ^ 99998) :
    pack_asn1_integer harnessFuel v none = .ok (packInt v) :=
  tie_pack_asn1_integer_default_harness v (intContent_length_le_pow v 99998 hv)

theorem tie_pack_asn1_boolean_harness (b : Bool) (t : Tag) (hc : t.cls ≤ 3) (hnum : t.num < 128 ^ 99999) :
    pack_asn1_boolean harnessFuel b (some (ofTag t)) = .ok (packBool b t) :=
  tie_pack_asn1_boolean_sz harnessFuel b t hc
    (Or.inr (Nat.lt_of_le_of_lt (packOctetNumber_length_le t.num 99999 hnum) (by decide)))

/-- the readers: every input shorter than 100000 octets (`tie_read_asn1_header` etc. at this fuel) -/
theorem tie_read_asn1_header_harness (bs : Bytes) (hb : IsBytes bs) (hf : bs.length < 100000) :
    read_asn1_header harnessFuel bs = (readHeader bs).map ofHeader :=
  read_asn1_header_eq harnessFuel bs hb hf

-- inputs of the size the harness feeds (`2 ^ 64` and beyond) are inside these hypotheses
theorem pow128_mono (a b : Nat) (h : a ≤ b) : (128 : Nat) ^ a ≤ 128 ^ b := Nat.pow_le_pow_right (by decide) h
example : (2 : Nat) ^ 64 < 128 ^ 99999 :=
  Nat.lt_of_lt_of_le (m := 128 ^ 10) (by decide) (pow128_mono 10 99999 (by decide))
example : pack_asn1_octet_number harnessFuel (2 ^ 64) = .ok [130, 128, 128, 128, 128, 128, 128, 128, 128, 0] := by
  decide
example : pack_asn1_integer harnessFuel (-(2 ^ 64)) none = .ok [2, 9, 255, 0, 0, 0, 0, 0, 0, 0, 0] := by decide
example : pack_asn1 harnessFuel 2 true (2 ^ 64) [1, 2]
    = .ok [191, 130, 128, 128, 128, 128, 128, 128, 128, 128, 0, 2, 1, 2] := by decide

/-! ## 2. argument ranges not covered before -/

/-- `_pack_asn1` with a NEGATIVE tag number, any class: `identifier_octets |= tag_number` is negative and
    `bytearray.append` raises ValueError (a class outside `0..3` raises ValueError before that). -/
theorem tie_pack_asn1_neg_num (fuel : Nat) (cls : Int) (cons : Bool) (num : Int) (content : Bytes)
    (hn : num < 0) :
    pack_asn1 fuel cls cons num content = .error .valueError :=
  pack_asn1_neg_num fuel cls cons num content hn

example : pack_asn1 5 0 false (-1) [] = .error .valueError := by decide
example : pack_asn1 0 3 true (-1000) [1, 2] = .error .valueError := by decide

/-- `_pack_asn1_octet_number` with a NEGATIVE `num`: `num >>= 7` stays negative, so `while num:` never
    ends — the Python function DOES NOT TERMINATE (it appends to a bytearray until memory runs out).
    The generated function accordingly reports fuel exhaustion (`fuelError = Err.recursion`) for
    EVERY fuel; no fuel makes it return.  (`tie_pack_asn1_octet_number*` are stated for `n : Nat`.) -/
theorem tie_pack_asn1_octet_number_neg (fuel : Nat) (num : Int) (h : num < 0) :
    pack_asn1_octet_number fuel num = .error fuelError :=
  pack_asn1_octet_number_neg fuel num h

example : pack_asn1_octet_number 50 (-1) = .error fuelError := by decide
example : pack_asn1_octet_number 0 (-300) = .error fuelError := by decide

/-- `_validate_tag(data, tag, header=h)` for ANY header `h` with non-negative fields (it need not be the
    header of `data`): the function trusts `h` — compares tags, slices `data[h.tag_length:]`, checks the
    length.  `validateWith` (`Proofs/Asn1GenValidate.lean`) is that computation on the model types. -/
theorem tie_validate_tag_any_header (fuel : Nat) (bs : Bytes) (exp : ASN1Tag) (h : Header) :
    validate_tag fuel bs exp (some (ofHeader h))
      = (if ofTag h.tag ≠ exp then .error .valueError
         else if (bs.drop h.hlen).length < h.len then .error .notEnough
         else .ok ((bs.drop h.hlen).take h.len, ((h.hlen + h.len : Nat) : Int))) :=
  validate_tag_some fuel bs exp h

-- a stale header (taken from other data) is believed
example : validate_tag 0 [9, 9, 9, 7, 8] (ofTag tOctets) (some (ofHeader ⟨tOctets, 3, 1⟩)) = .ok ([7], 4) := by
  decide

/-- `_read_asn1_integer(data, tag, header=h)`: BOTH given (`h = peek_header()`); the tag is checked
    against the header's, the model's `expect = some t` -/
theorem tie_read_asn1_integer_tag_header (fuel : Nat) (bs : Bytes) (t : Tag) (h : Header) (hb : IsBytes bs)
    (hr : readHeader bs = .ok h) :
    read_asn1_integer fuel bs (some (ofTag t)) (some (ofHeader h))
      = (readInt (some t) bs).map (consumedOfV bs) :=
  read_asn1_integer_of fuel bs _ _ (some t) hb
    (by rw [selTag_some]; exact validate_tag_header_eq fuel bs t h hr)

/-- `_read_asn1_boolean(data, tag, header=h)`: both given -/
theorem tie_read_asn1_boolean_tag_header (fuel : Nat) (bs : Bytes) (t : Tag) (h : Header)
    (hr : readHeader bs = .ok h) :
    read_asn1_boolean fuel bs (some (ofTag t)) (some (ofHeader h))
      = (readBool (some t) bs).map (consumedOfV bs) :=
  read_asn1_boolean_of fuel bs _ _ (some t)
    (by rw [selTag_some]; exact validate_tag_header_eq fuel bs t h hr)

example : readHeader [2, 2, 0xFF, 0x7F, 9] = .ok ⟨tInt, 2, 2⟩ := by decide
example : read_asn1_integer 0 [2, 2, 0xFF, 0x7F, 9] (some (ofTag tInt)) (some (ofHeader ⟨tInt, 2, 2⟩))
    = .ok (-129, 4) := by decide
-- the tag given disagrees with the header's: ValueError
example : read_asn1_integer 0 [2, 2, 0xFF, 0x7F, 9] (some (ofTag tEnum)) (some (ofHeader ⟨tInt, 2, 2⟩))
    = .error .valueError := by decide
example : read_asn1_boolean 0 [1, 1, 0, 9] (some (ofTag tBool)) (some (ofHeader ⟨tBool, 2, 1⟩))
    = .ok (false, 3) := by decide
example : read_asn1_boolean 0 [1, 1, 0, 9] (some (ofTag tInt)) (some (ofHeader ⟨tBool, 2, 1⟩))
    = .error .valueError := by decide

/-! ## 3. the number of octets consumed determines the remainder -/

/-- what `consumedOf bs (c, rest) = (c, bs.length - rest.length)` forgets can be restored: the model's
    remainder is `data[consumed:]`, and it is no longer than the input (no truncated subtraction) -/
theorem readTLV_rest (e : Option Tag) (bs c rest : Bytes) (hr : readTLV e bs = .ok (c, rest)) :
    rest = bs.drop (bs.length - rest.length) ∧ rest.length ≤ bs.length
      ∧ bs.length - rest.length ≤ bs.length :=
  ⟨(Proofs.Asn1Gen.readTLV_rest e bs c rest hr).1, (Proofs.Asn1Gen.readTLV_rest e bs c rest hr).2,
    Nat.sub_le _ _⟩

theorem readInt_rest (e : Option Tag) (bs : Bytes) (v : Int) (rest : Bytes)
    (hr : readInt e bs = .ok (v, rest)) :
    rest = bs.drop (bs.length - rest.length) ∧ rest.length ≤ bs.length :=
  Proofs.Asn1Gen.readInt_rest e bs v rest hr

theorem readBool_rest (e : Option Tag) (bs : Bytes) (b : Bool) (rest : Bytes)
    (hr : readBool e bs = .ok (b, rest)) :
    rest = bs.drop (bs.length - rest.length) ∧ rest.length ≤ bs.length :=
  Proofs.Asn1Gen.readBool_rest e bs b rest hr

example : readTLV (some tOctets) [4, 2, 7, 8, 9] = .ok ([7, 8], [9]) := by decide

/-- `_validate_tag(data, tag)` returns `(c, k)` iff `k` is a natural number `≤ len(data)` and the model
    returns `(c, data[k:])` -/
theorem tie_validate_tag_ok_iff (fuel : Nat) (bs : Bytes) (t : Tag) (hb : IsBytes bs) (hf : bs.length < fuel)
    (c : Bytes) (k : Int) :
    validate_tag fuel bs (ofTag t) none = .ok (c, k)
      ↔ ∃ n : Nat, k = (n : Int) ∧ n ≤ bs.length ∧ readTLV (some t) bs = .ok (c, bs.drop n) := by
  rw [validate_tag_eq fuel bs t hb hf, consumedOf_eq_V]
  exact map_consumedOfV_ok_iff bs _ (fun a rest h => (Proofs.Asn1Gen.readTLV_rest _ bs a rest h).1) c k

/-- the same with the count as a natural number -/
theorem tie_validate_tag_ok_iff_nat (fuel : Nat) (bs : Bytes) (t : Tag) (hb : IsBytes bs)
    (hf : bs.length < fuel) (c : Bytes) (n : Nat) :
    validate_tag fuel bs (ofTag t) none = .ok (c, (n : Int))
      ↔ readTLV (some t) bs = .ok (c, bs.drop n) ∧ n ≤ bs.length := by
  rw [tie_validate_tag_ok_iff fuel bs t hb hf]
  constructor
  · rintro ⟨m, hm, hle, h⟩
    have : n = m := by omega
    subst this; exact ⟨h, hle⟩
  · rintro ⟨h, hle⟩; exact ⟨n, rfl, hle, h⟩

/-- … and raises exactly when the model does, the same class -/
theorem tie_validate_tag_error_iff (fuel : Nat) (bs : Bytes) (t : Tag) (hb : IsBytes bs)
    (hf : bs.length < fuel) (e : Err) :
    validate_tag fuel bs (ofTag t) none = .error e ↔ readTLV (some t) bs = .error e := by
  rw [validate_tag_eq fuel bs t hb hf]; exact map_error_iff _ _ e

/-- `_validate_tag(data, tag, header=peek_header())` -/
theorem tie_validate_tag_header_ok_iff (fuel : Nat) (bs : Bytes) (t : Tag) (h : Header)
    (hr : readHeader bs = .ok h) (c : Bytes) (k : Int) :
    validate_tag fuel bs (ofTag t) (some (ofHeader h)) = .ok (c, k)
      ↔ ∃ n : Nat, k = (n : Int) ∧ n ≤ bs.length ∧ readTLV (some t) bs = .ok (c, bs.drop n) := by
  rw [validate_tag_header_eq fuel bs t h hr, consumedOf_eq_V]
  exact map_consumedOfV_ok_iff bs _ (fun a rest h => (Proofs.Asn1Gen.readTLV_rest _ bs a rest h).1) c k

/-- `_read_asn1_integer(data, tag)` returns `(v, k)` iff the model returns `(v, data[k:])`, `0 ≤ k ≤ len(data)` -/
theorem tie_read_asn1_integer_ok_iff (fuel : Nat) (bs : Bytes) (t : Tag) (hb : IsBytes bs)
    (hf : bs.length < fuel) (v k : Int) :
    read_asn1_integer fuel bs (some (ofTag t)) none = .ok (v, k)
      ↔ ∃ n : Nat, k = (n : Int) ∧ n ≤ bs.length ∧ readInt (some t) bs = .ok (v, bs.drop n) := by
  rw [tie_read_asn1_integer fuel bs t hb hf]
  exact map_consumedOfV_ok_iff bs _ (fun a rest h => (Proofs.Asn1Gen.readInt_rest _ bs a rest h).1) v k

/-- `_read_asn1_boolean(data, tag)` likewise -/
theorem tie_read_asn1_boolean_ok_iff (fuel : Nat) (bs : Bytes) (t : Tag) (hb : IsBytes bs)
    (hf : bs.length < fuel) (b : Bool) (k : Int) :
    read_asn1_boolean fuel bs (some (ofTag t)) none = .ok (b, k)
      ↔ ∃ n : Nat, k = (n : Int) ∧ n ≤ bs.length ∧ readBool (some t) bs = .ok (b, bs.drop n) := by
  rw [tie_read_asn1_boolean fuel bs t hb hf]
  exact map_consumedOfV_ok_iff bs _ (fun a rest h => (Proofs.Asn1Gen.readBool_rest _ bs a rest h).1) b k

-- both sides of the equivalences hold on a sample
example : validate_tag 6 [4, 2, 7, 8, 9] (ofTag tOctets) none = .ok ([7, 8], ((4 : Nat) : Int)) := by decide
example : readTLV (some tOctets) [4, 2, 7, 8, 9] = .ok ([7, 8], ([4, 2, 7, 8, 9] : Bytes).drop 4) ∧ 4 ≤ 5 := by
  decide
example : validate_tag 6 [4, 2, 7] (ofTag tOctets) none = .error .notEnough
    ∧ readTLV (some tOctets) [4, 2, 7] = .error .notEnough := by decide
example : read_asn1_integer 6 [2, 2, 0xFF, 0x7F, 9] (some (ofTag tInt)) none = .ok (-129, ((4 : Nat) : Int))
    ∧ readInt (some tInt) [2, 2, 0xFF, 0x7F, 9] = .ok (-129, ([2, 2, 0xFF, 0x7F, 9] : Bytes).drop 4) := by decide
example : read_asn1_boolean 6 [1, 1, 0, 9] (some (ofTag tBool)) none = .ok (false, ((3 : Nat) : Int))
    ∧ readBool (some tBool) [1, 1, 0, 9] = .ok (false, ([1, 1, 0, 9] : Bytes).drop 3) := by decide

end Verif.TiesAsn1
