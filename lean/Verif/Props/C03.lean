/-
C03 — encoded messages are RFC 4511 BER that an independent decoder reads back.
-/
import Verif.Spec.WF
import Verif.Spec.Rfc4511
import Verif.Proofs.StrictDecode

namespace Verif.C03
open Verif

/-- The RFC-exact encoding: identical to the library's `encMsg`, except that the
    UnbindRequest protocolOp — `[APPLICATION 2] NULL` — is in primitive form. -/
def encMsgRfc (m : Msg) : Bytes :=
  packTLV tSeq
    (packInt m.id ++ packTLV (tagApp (opTag m.op) (!m.op.isUnbind)) (encOp m.op)
      ++ (if m.controls.isEmpty then [] else
            packTLV (tagCtx 0 true) (m.controls.map encControl).flatten))

/-- for every message that is not an UnbindRequest the library's bytes ARE the RFC-exact bytes -/
theorem lib_is_rfc (m : Msg) (hu : m.op.isUnbind = false) : encMsg m = encMsgRfc m := by
  simp [encMsg, encMsgRfc, hu]

/-- the independent strict decoder (exact tag class / number / form of every element,
    definite lengths, primitive octet strings, TRUE = FF, defaults and absent optionals
    omitted, minimal integers, component order, nothing extra) recovers exactly the abstract
    message from the RFC-exact encoding, with nothing left over — for every well-formed
    message built from the library's own types.
    The size bound `hs` holds for every byte string a Python process can hold (2^1008 octets);
    beyond it the writer would need the reserved length octet 0xFF
    (`Proofs.rfcDecode_huge_none` shows the bound cannot be dropped). -/
theorem strict_decode_rfc (m : Msg) (h : m.noCustom) (hs : (encMsgRfc m).length < 256 ^ 126) :
    Rfc.decode (encMsgRfc m) = some (fillRaw m) :=
  Proofs.rfcDecode_encMsgRfc' m h hs

/-- hence: the library's encoding of every message other than UnbindRequest is read back by
    the independent decoder as the same abstract message -/
theorem strict_decode (m : Msg) (h : m.noCustom) (hu : m.op.isUnbind = false)
    (hs : (encMsg m).length < 256 ^ 126) :
    Rfc.decode (encMsg m) = some (fillRaw m) := by
  rw [lib_is_rfc m hu] at hs ⊢; exact strict_decode_rfc m h hs

/-- Known finding F-C03 (pinned by the repository's tests): the library writes UnbindRequest
    in constructed form, which the strict decoder rejects.  The deviation is exactly the
    constructed bit of that one identifier octet. -/
theorem unbind_known_finding (id : Int) (cs : List Control) :
    Rfc.decode (encMsg ⟨id, .unbind, cs⟩) = none :=
  Proofs.rfcDecode_unbind_none id cs

/-! non-vacuity -/
example : Rfc.decode (encMsg ⟨7, .extReq [49, 46, 50] (some [1, 2]), [.paged false 3 [] none]⟩)
    = some ⟨7, .extReq [49, 46, 50] (some [1, 2]), [.paged false 3 [] (some (pagedValue 3 []))]⟩ := by
  rfl
example : Rfc.decode (encMsgRfc ⟨0, .unbind, []⟩) = some ⟨0, .unbind, []⟩ := by rfl

end Verif.C03
