/-
Ties between the Lean text GENERATED from the Python source of `sansldap/_session.py`
(`Verif/Generated/SessionGen.lean`, written by `harness/py2lean_session.py` on every run; runtime
`Verif/PyRtSession.lean`) and the hand-written session model `Verif/Model/Session.lean`, about which
C08–C12 are proved.

What is tied: the BOOKKEEPING — acceptance, lifecycle state, the outstanding / search id sets, the message
counter, the outgoing buffer.  What is abstract (and therefore trusted here, covered by other theorems and
tests): `msg.pack(options)` is the model's `encMsg msg`; the unpacking half of `receive` is a parameter of the
generated function: since round 12 ONLY the call `unpack_ldap_message(reader, options)` (parameter `unpack`,
instantiated by the model's `decMsg regs depth`); the loops around it are translated and proved to be `parseLoop`
(`Props/TiesSessionRecv.lean`).

State abstraction (both directions explicit, `Proofs/SessionGenBase.lean`):
  `absS r regs : St → Sess`      generated field record ↦ model session (`r` = class of `self`,
                                 `regs` = the registered custom types, part of the opaque `_packing_options`)
  `concS v : Sess → St`          model session ↦ field record (`v` = the constant field `self.version`)
  `concS st.version (absS r regs st) = st`, `absS s.role s.regs (concS v s) = s`.
Sets are lists without duplicates in insertion order; the runtime's `setAdd / setDiscard / setRemove` are
literally the model's `setInsert / setErase`, so no invariant is needed for the ties; that the lists stay
duplicate free is `nodup_*` below.

Two forms:
  * component ties `…_eq`: generated function = (outcome, `concS` of the model function's session);
  * step ties `…_abs`: `absRes r regs f (generated call) = step (absS r regs st) (Call …)`.
Every theorem is full strength (no `_partial`).  Proofs: `Verif/Proofs/SessionGen*.lean`.
Axioms: propext, Classical.choice, Quot.sound.  See design_notes/py2lean_session.md.
-/
import Verif.Proofs.SessionGenStepRecv
import Verif.Proofs.SessionGenInv

namespace Verif.TiesSession

open Verif Verif.PyRtS Verif.SessionGen Verif.Proofs.SessionGen

/-! ### the abstraction -/

theorem tie_conc_abs (r : Role) (regs : Regs) (st : St) : concS st.version (absS r regs st) = st :=
  concS_absS r regs st

theorem tie_abs_conc (v : Int) (s : Sess) : absS s.role s.regs (concS v s) = s := absS_concS v s

/-- `LDAPClient()` / `LDAPServer()` are the model's initial sessions -/
theorem tie_init_client (regs : Regs) : absS .client regs LDAPClient_new = { Sess.init .client with regs := regs } := rfl
theorem tie_init_server (regs : Regs) :
    absS .server regs LDAPServer_new = { Sess.init .server with regs := regs, counter := 0 } := rfl

example : LDAPClient_new.message_counter = 1 ∧ LDAPClient_new.version = 3 := by decide

/-! ### `data_to_send` -/

theorem tie_data_to_send (r : Role) (regs : Regs) (st : St) (amount : Option Int) :
    absRes r regs .bytes (LDAPSession_data_to_send st amount) = step (absS r regs st) (.drain amount) :=
  data_to_send_abs r regs st amount

example : ((LDAPSession_data_to_send { LDAPClient_new with outgoing_buffer := [1, 2, 3] } (some (-1))).1.toOption,
           (LDAPSession_data_to_send { LDAPClient_new with outgoing_buffer := [1, 2, 3] } (some (-1))).2.outgoing_buffer)
    = (some [1, 2], [3]) := by decide
example : (LDAPSession_data_to_send { LDAPClient_new with outgoing_buffer := [1, 2, 3] } none).2.outgoing_buffer = [] := by
  decide

/-! ### `LDAPSession._send` + `_validate_outgoing_message`, `LDAPClient._send`, `LDAPServer._send` -/

theorem tie_client_base_send (regs : Regs) (st : St) (m : Msg) :
    LDAPClient_LDAPSession_send st m = sendRes st.version m.id (sendBase (absS .client regs st) m) :=
  client_base_send_eq regs st m

theorem tie_server_base_send (regs : Regs) (st : St) (m : Msg) :
    LDAPServer_LDAPSession_send st m = sendRes st.version m.id (sendBase (absS .server regs st) m) :=
  server_base_send_eq regs st m

/-- `LDAPClient._send` of anything but an UnbindRequest is the model's `clientSend` -/
theorem tie_client_send (regs : Regs) (st : St) (m : Msg) (h : m.op.isUnbind = false) :
    LDAPClient_send st m = sendResOpt st.version (clientSend (absS .client regs st) m.op m.controls) :=
  client_send_eq regs st m h

theorem tie_client_send_unbind (regs : Regs) (st : St) (m : Msg) (h : m.op.isUnbind = true) :
    LDAPClient_send st m = sendRes st.version m.id (sendBase (absS .client regs st) m) :=
  client_send_unbind regs st m h

/-- `LDAPServer._send` of anything but an UnbindRequest is the model's `serverSend`; in particular the
    `set.remove` in it never raises KeyError (the id check of `_validate_outgoing_message` came first) -/
theorem tie_server_send (regs : Regs) (st : St) (m : Msg) (h : m.op.isUnbind = false) :
    LDAPServer_send st m = sendRes st.version m.id (serverSend (absS .server regs st) m) :=
  server_send_eq regs st m h

theorem tie_server_send_unbind (regs : Regs) (st : St) (m : Msg) (h : m.op.isUnbind = true) :
    LDAPServer_send st m = sendRes st.version m.id (sendBase (absS .server regs st) m) :=
  server_send_unbind regs st m h

example : ((LDAPClient_send LDAPClient_new ⟨0, .extReq [49] none, []⟩).1.toOption,
           (LDAPClient_send LDAPClient_new ⟨0, .extReq [49] none, []⟩).2.outstanding_requests,
           (LDAPClient_send LDAPClient_new ⟨0, .extReq [49] none, []⟩).2.message_counter,
           (LDAPClient_send LDAPClient_new ⟨0, .extReq [49] none, []⟩).2.state)
    = (some 1, [1], 2, .OPENED) := by decide
/-- a refused server response: BEFORE_OPEN → OPENED persists, nothing is written -/
example : ((LDAPServer_send LDAPServer_new ⟨7, .searchDone ⟨0, [], [], some []⟩, []⟩).1.toOption,
           (LDAPServer_send LDAPServer_new ⟨7, .searchDone ⟨0, [], [], some []⟩, []⟩).2.state,
           (LDAPServer_send LDAPServer_new ⟨7, .searchDone ⟨0, [], [], some []⟩, []⟩).2.outgoing_buffer)
    = (none, .OPENED, []) := by decide

/-! ### `unbind` -/

theorem tie_client_unbind (regs : Regs) (st : St) :
    absRes .client regs (fun _ => .unit) (LDAPClient_LDAPSession_unbind st) = step (absS .client regs st) .unbind :=
  client_unbind_abs regs st

theorem tie_server_unbind (regs : Regs) (st : St) :
    absRes .server regs (fun _ => .unit) (LDAPServer_LDAPSession_unbind st) = step (absS .server regs st) .unbind :=
  server_unbind_abs regs st

example : (LDAPClient_LDAPSession_unbind LDAPClient_new).2.state = .CLOSED := by decide

/-! ### `_process_incoming_message` -/

theorem tie_client_process (regs : Regs) (st : St) (m : Msg) :
    LDAPClient_process_incoming_message st m = procResC st.version st (clientProcess (absS .client regs st) m) :=
  client_process_eq regs st m

theorem tie_server_process (regs : Regs) (st : St) (m : Msg) :
    LDAPServer_process_incoming_message st m = procResS st.version st (serverProcess (absS .server regs st) m) :=
  server_process_eq regs st m

example : (LDAPServer_process_incoming_message LDAPServer_new ⟨5, .searchReq [] 0 0 0 0 false (.present [99]) [], []⟩).2.search_requests
    = [5] := by decide
example : (LDAPClient_process_incoming_message LDAPClient_new ⟨5, .searchDone ⟨0, [], [], none⟩, []⟩).1.toOption = none := by
  decide

/-! ### the processing loop and the closing logic of `receive` -/

/-- the `for msg in incoming_msgs:` loop is the model's `processLoop`; `offender` is the message the
    ProtocolError carries as `.request` (the model keeps only its two flags, `offender_flags`) -/
theorem tie_client_loop (regs : Regs) (ms : List Msg) (st : St) :
    LDAPClient_LDAPSession_receive_for1 ms st
      = loopRes st.version (offender (absS .client regs st) ms) (processLoop (absS .client regs st) ms) :=
  client_loop_eq regs ms st

theorem tie_server_loop (regs : Regs) (ms : List Msg) (st : St) :
    LDAPServer_LDAPSession_receive_for1 ms st
      = loopRes st.version (offender (absS .server regs st) ms) (processLoop (absS .server regs st) ms) :=
  server_loop_eq regs ms st

/-- `LDAPClient.receive` (wrapper + `LDAPSession.receive`: closed check, BOTH unpacking loops with the residue
    handling, the processing loop, `closeSess`, the attached notification with its exact bytes) for
    `unpack_ldap_message := decMsg regs depth` is the model's `recv` — up to the ONE known difference, made explicit
    by `recvPy`: `_incoming_buffer` after an unpacking that RAISES on an empty buffer (`pyResidueOnError`).
    No hypothesis about an abstracted statement any more (round 12; see `Props/TiesSessionRecv.lean`). -/
theorem tie_client_receive (regs : Regs) (depth : Nat) (st : St) (chunk : Bytes) :
    LDAPClient_receive st chunk (decMsg regs depth)
      = recvRes st.version [] (recvRequest depth (absS .client regs st) chunk)
          (recvPy depth (absS .client regs st) chunk) :=
  client_receive_eq regs depth st chunk

theorem tie_server_receive (regs : Regs) (depth : Nat) (st : St) (chunk text : Bytes) :
    LDAPServer_receive st chunk (decMsg regs depth) text
      = recvRes st.version text (recvRequest depth (absS .server regs st) chunk)
          (recvPy depth (absS .server regs st) chunk) :=
  server_receive_eq regs depth st chunk text

/-- `recvPy` is `recv` when the buffer was non-empty before the call or the unpacking does not raise -/
theorem tie_recvPy_eq_recv (depth : Nat) (s : Sess) (chunk : Bytes)
    (h : s.residue ≠ [] ∨ ∃ p, parseLoop s.regs depth (s.residue ++ chunk).length (s.residue ++ chunk) = .ok p) :
    recvPy depth s chunk = recv depth s chunk :=
  recvPy_eq_recv depth s chunk h

/-- and in every case they differ at most in the residue … -/
theorem tie_recvPy_forget (depth : Nat) (s : Sess) (chunk : Bytes) :
    forgetResidue (recvPy depth s chunk) = forgetResidue (recv depth s chunk) :=
  recvPy_forget depth s chunk

/-- … of a session that is CLOSED on both sides (every later `receive` raises at its first statement) -/
theorem tie_recvPy_differs_only_closed (depth : Nat) (s : Sess) (chunk : Bytes)
    (h : recvPy depth s chunk ≠ recv depth s chunk) :
    (recvPy depth s chunk).1.state = .closed ∧ (recv depth s chunk).1.state = .closed :=
  recvPy_differs_only_closed depth s chunk h

/-- against the model's `recv` itself, without hypothesis: every field but `_incoming_buffer`, and the outcome
    (the names of round 10 are kept; there they compared two instances of the abstracted statement) -/
theorem tie_client_receive_any_buffer (regs : Regs) (depth : Nat) (st : St) (chunk : Bytes) :
    forgetIn (LDAPClient_receive st chunk (decMsg regs depth))
      = forgetIn (recvRes st.version [] (recvRequest depth (absS .client regs st) chunk)
          (recv depth (absS .client regs st) chunk)) :=
  client_receive_any_buffer regs depth st chunk

theorem tie_server_receive_any_buffer (regs : Regs) (depth : Nat) (st : St) (chunk text : Bytes) :
    forgetIn (LDAPServer_receive st chunk (decMsg regs depth) text)
      = forgetIn (recvRes st.version text (recvRequest depth (absS .server regs st) chunk)
          (recv depth (absS .server regs st) chunk)) :=
  server_receive_any_buffer regs depth st chunk text

/-- one `step (.receive chunk)` of the model: exact when `ResidueAgrees` … -/
theorem tie_client_receive_step (regs : Regs) (st : St) (chunk : Bytes)
    (h : ResidueAgrees regs defaultDepth st chunk) :
    absRes .client regs .msgs (LDAPClient_receive st chunk (decMsg regs defaultDepth))
      = step (absS .client regs st) (.receive chunk) :=
  client_receive_abs_model regs defaultDepth st chunk h

theorem tie_server_receive_step (regs : Regs) (st : St) (chunk text : Bytes)
    (h : ResidueAgrees regs defaultDepth st chunk) :
    absRes .server regs .msgs (LDAPServer_receive st chunk (decMsg regs defaultDepth) text)
      = step (absS .server regs st) (.receive chunk) :=
  server_receive_abs_model regs defaultDepth st chunk text h

/-- … and without hypothesis for everything but the residue (outcome, state, id sets, counter, outgoing buffer) -/
theorem tie_client_receive_step_forget (regs : Regs) (st : St) (chunk : Bytes) :
    forgetResidue (absRes .client regs .msgs (LDAPClient_receive st chunk (decMsg regs defaultDepth)))
      = forgetResidue (step (absS .client regs st) (.receive chunk)) :=
  client_receive_abs_forget regs defaultDepth st chunk

theorem tie_server_receive_step_forget (regs : Regs) (st : St) (chunk text : Bytes) :
    forgetResidue (absRes .server regs .msgs (LDAPServer_receive st chunk (decMsg regs defaultDepth) text))
      = forgetResidue (step (absS .server regs st) (.receive chunk)) :=
  server_receive_abs_forget regs defaultDepth st chunk text

/-- an oracle that delivers one UnbindRequest: the server closes, no notice is attached -/
example : ((LDAPServer_receive LDAPServer_new [1] (fun _ => .ok (⟨0, .unbind, []⟩, [])) []).2.state,
           match (LDAPServer_receive LDAPServer_new [1] (fun _ => .ok (⟨0, .unbind, []⟩, [])) []).1 with
           | .error (.protocolError (some _) none) => true
           | _ => false)
    = (.CLOSED, true) := by decide
/-- a ValueError of the unpacking closes the client, the packed UnbindRequest is attached; the (empty) buffer
    stays empty -/
example : ((LDAPClient_receive LDAPClient_new [48] (fun _ => .error .valueError)).2.state,
           (LDAPClient_receive LDAPClient_new [48] (fun _ => .error .valueError)).2.incoming_buffer,
           match (LDAPClient_receive LDAPClient_new [48] (fun _ => .error .valueError)).1 with
           | .error (.protocolError none (some b)) => b
           | _ => [])
    = (.CLOSED, [], encMsg unbindMsg) := by decide
/-- NotEnougData on the direct path: the octets are kept -/
example : ((LDAPClient_receive LDAPClient_new [48, 5] (fun _ => .error .notEnough)).2.incoming_buffer,
           (LDAPClient_receive LDAPClient_new [48, 5] (fun _ => .error .notEnough)).1.toOption.map (·.length))
    = ([48, 5], some 0) := by decide
/-- … and on the buffered path: buffer ++ data -/
example : (LDAPClient_receive { LDAPClient_new with incoming_buffer := [48] } [5] (fun _ => .error .notEnough)).2.incoming_buffer
    = [48, 5] := by decide

/-! ### the public send methods: one `step` of the model each -/

theorem tie_bind (regs : Regs) (st : St) (dn : Bytes) (cred : Cred) (controls : Option (List Control))
    (hv : st.version = Facts.ldapVersion) :
    absRes .client regs .sent (LDAPClient_bind st dn cred controls)
      = step (absS .client regs st) (.bind dn cred (controls.getD [])) :=
  client_bind_abs regs st dn cred controls hv

theorem tie_bind_simple (st : St) (dn pw : Option Bytes) (controls : Option (List Control)) :
    LDAPClient_bind_simple st dn pw controls = LDAPClient_bind st (dn.getD []) (.simple (pw.getD [])) controls := by
  simp [LDAPClient_bind_simple, optOrEmpty_getD]

theorem tie_bind_sasl (st : St) (mech : Bytes) (dn cred : Option Bytes) (controls : Option (List Control)) :
    LDAPClient_bind_sasl st mech dn cred controls = LDAPClient_bind st (dn.getD []) (.sasl mech cred) controls := by
  simp [LDAPClient_bind_sasl, optOrEmpty_getD]

theorem tie_extended_request (regs : Regs) (st : St) (name : Bytes) (value : Option Bytes)
    (controls : Option (List Control)) :
    absRes .client regs .sent (LDAPClient_extended_request st name value controls)
      = step (absS .client regs st) (.extended name value (controls.getD [])) :=
  client_extended_abs regs st name value controls

theorem tie_search_request (regs : Regs) (st : St) (base : Option Bytes) (scope deref sl tl : Int) (ty : Bool)
    (filter : Option Filter) (attrs : Option (List Bytes)) (controls : Option (List Control))
    (hs : scope ∈ SearchScope_members) (hd : deref ∈ DereferencingPolicy_members) :
    absRes .client regs .sent (LDAPClient_search_request st base scope deref sl tl ty filter attrs controls)
      = step (absS .client regs st)
          (.search (base.getD []) scope deref sl tl ty filter (attrs.getD []) (controls.getD [])) :=
  client_search_abs regs st base scope deref sl tl ty filter attrs controls hs hd

/-- outside the enum values the Python raises ValueError and touches nothing; the model's `.search` step has
    no such check (it is a model of calls with member values) -/
theorem tie_search_request_bad_enum (st : St) (base : Option Bytes) (scope deref sl tl : Int) (ty : Bool)
    (filter : Option Filter) (attrs : Option (List Bytes)) (controls : Option (List Control))
    (h : scope ∉ SearchScope_members ∨ deref ∉ DereferencingPolicy_members) :
    LDAPClient_search_request st base scope deref sl tl ty filter attrs controls = (.error .valueError, st) :=
  client_search_bad_enum st base scope deref sl tl ty filter attrs controls h

theorem tie_bind_response (regs : Regs) (st : St) (id : Int) (sasl : Option Bytes) (code : Int)
    (mdn diag : Option Bytes) (controls : Option (List Control)) :
    absRes .server regs .sent (LDAPServer_bind_response st id sasl code mdn diag controls)
      = step (absS .server regs st) (.bindResponse id sasl code (mdn.getD []) (diag.getD []) (controls.getD [])) :=
  server_bind_response_abs regs st id sasl code mdn diag controls

theorem tie_extended_response (regs : Regs) (st : St) (id : Int) (name value : Option Bytes) (code : Int)
    (mdn diag : Option Bytes) (controls : Option (List Control)) :
    absRes .server regs .sent (LDAPServer_extended_response st id name value code mdn diag controls)
      = step (absS .server regs st)
          (.extendedResponse id name value code (mdn.getD []) (diag.getD []) (controls.getD [])) :=
  server_extended_response_abs regs st id name value code mdn diag controls

theorem tie_search_result_entry (regs : Regs) (st : St) (id : Int) (name : Bytes)
    (attrs : List (Bytes × List Bytes)) (controls : Option (List Control)) :
    absRes .server regs .sent (LDAPServer_search_result_entry st id name attrs controls)
      = step (absS .server regs st) (.entry id name attrs (controls.getD [])) :=
  server_search_result_entry_abs regs st id name attrs controls

theorem tie_search_result_reference (regs : Regs) (st : St) (id : Int) (uris : List Bytes)
    (controls : Option (List Control)) :
    absRes .server regs .sent (LDAPServer_search_result_reference st id uris controls)
      = step (absS .server regs st) (.reference id uris (controls.getD [])) :=
  server_search_result_reference_abs regs st id uris controls

theorem tie_search_result_done (regs : Regs) (st : St) (id : Int) (code : Int) (mdn diag : Option Bytes)
    (controls : Option (List Control)) :
    absRes .server regs .sent (LDAPServer_search_result_done st id code mdn diag controls)
      = step (absS .server regs st) (.done id code (mdn.getD []) (diag.getD []) (controls.getD [])) :=
  server_search_result_done_abs regs st id code mdn diag controls

example : ((LDAPClient_bind LDAPClient_new [] (.simple []) none).1.toOption,
           (LDAPClient_bind LDAPClient_new [] (.simple []) none).2.state) = (some 1, .BINDING) := by decide
example : (LDAPClient_search_request LDAPClient_new none 2 0 0 0 false none none none).2.search_requests = [1] := by
  decide
example : (LDAPClient_search_request LDAPClient_new none 7 0 0 0 false none none none).1.toOption = none := by decide
example : (LDAPServer_bind_response { LDAPServer_new with state := .BINDING, outstanding_requests := [1] }
            1 none 0 none none none).2.state = .OPENED := by decide
example : (LDAPServer_search_result_done { LDAPServer_new with outstanding_requests := [4], search_requests := [4] }
            4 0 none none none).2.search_requests = [] := by decide

/-! ### the id sets stay duplicate free -/

theorem nodup_step (s : Sess) (c : Call) (h : SetsNodup s) : SetsNodup (step s c).1 := step_nodup s c h

/-- transfer to every generated public method through its step tie -/
theorem nodup_of_step_tie {α : Type} (r : Role) (regs : Regs) (f : α → Outcome) (x : Res St α) (st : St) (c : Call)
    (htie : absRes r regs f x = step (absS r regs st) c)
    (h : st.outstanding_requests.Nodup ∧ st.search_requests.Nodup) :
    x.2.outstanding_requests.Nodup ∧ x.2.search_requests.Nodup :=
  nodup_transfer r regs f x st c htie h

end Verif.TiesSession
