/-
C02 — message reassembly is independent of how the byte stream is chunked.
-/
import Verif.Spec.Frame
import Verif.Spec.WF
import Verif.Proofs.Recv

namespace Verif.C02
open Verif

/-- Framing: a strict prefix of a complete unit is never mistaken for a message — the decoder
    answers "not enough data" and consumes nothing, whatever the cut position (inside the
    header included). -/
theorem prefix_waits (regs : Regs) (depth : Nat) (m : Msg) (p : Bytes)
    (hp : p <+: encMsg m) (hlt : p.length < (encMsg m).length) :
    decMsg regs depth p = .error .notEnough :=
  Proofs.decMsg_prefix_notEnough regs depth m p hp hlt

/-- Chunking independence, in the direction "one delivery ⇒ any chunking": if delivering all
    the bytes at once returns messages `ms` (no error), then delivering the same bytes cut
    into ANY list of consecutive chunks (empty chunks, single bytes, cuts inside headers,
    several messages per chunk) returns, overall, exactly `ms` in the same order, raises
    nothing, and ends in the same session state — buffered residue included. -/
theorem chunked_eq_whole (depth : Nat) (s : Sess) (chunks : List Bytes) (ms : List Msg)
    (hb : IsBytes (s.residue ++ chunks.flatten)) (hne : chunks ≠ [])
    (h : (recv depth s chunks.flatten).2 = .msgs ms) :
    feed depth s chunks = ((recv depth s chunks.flatten).1, ms, none) :=
  Proofs.feed_eq_recv depth s chunks ms hb hne h

/-- and conversely: an error-free chunked run yields what the single delivery yields -/
theorem whole_eq_chunked (depth : Nat) (s : Sess) (chunks : List Bytes)
    (hb : IsBytes (s.residue ++ chunks.flatten)) (hne : chunks ≠ [])
    (hok : (feed depth s chunks).2.2 = none) :
    recv depth s chunks.flatten = ((feed depth s chunks).1, .msgs (feed depth s chunks).2.1) :=
  Proofs.recv_eq_feed depth s chunks hb hne hok

/-- the stream of any sequence of well-formed messages parses back to exactly those messages
    (with raw control values filled in), in order, leaving nothing buffered -/
theorem stream_parses (regs : Regs) (depth : Nat) (ms : List Msg)
    (hwf : ∀ m ∈ ms, m.WF regs ∧ m.op.filterDepth < depth) :
    parseLoop regs depth ((ms.map encMsg).flatten).length ((ms.map encMsg).flatten)
      = .ok (ms.map fillRaw, []) :=
  Proofs.parseLoop_stream regs depth ms hwf

/-! non-vacuity: two requests cut in the middle of the second header -/
example :
    let a := encMsg ⟨1, .extReq [49] none, []⟩
    let b := encMsg ⟨2, .extReq [50] none, []⟩
    (feed 10 (Sess.init .server) [a ++ b.take 1, b.drop 1]).2.1.length = 2 := by decide

end Verif.C02
