/-
C04 — the decoder accepts every valid BER form of a message, not only its own.
-/
import Verif.Spec.Lenient
import Verif.Proofs.LenientDecode

namespace Verif.C04
open Verif Verif.Lenient

/-- For every well-formed message and EVERY permitted encoding of it (`MsgL`: at each TLV node
    any definite length form incl. padded long forms, TRUE as any non-zero octet, explicitly
    encoded defaults, unrecognised trailing elements after the defined components), whatever
    follows on the wire: the decoder returns that same message and consumes exactly the
    encoding.  The message carries the raw value octets of known controls as they were sent. -/
theorem decodes (regs : Regs) (m : Msg) (bs rest : Bytes) (depth : Nat)
    (h : MsgL m bs) (hwf : m.WF regs) (hd : m.op.filterDepth < depth) :
    decMsg regs depth (bs ++ rest) = .ok (m, rest) :=
  Proofs.decMsg_lenient regs m bs rest depth h hwf hd

/-- the library's own encoding is one of the permitted encodings, so a peer's encoding of a
    message decodes to the same value as the library's own encoding of it.  The size bound is
    needed because `LenEnc` (X.690 §8.1.3.5) has at most 127 length octets: a longer encoding
    has no definite length form at all. -/
theorem own_encoding_permitted (m : Msg) (h : m.WF {}) (hb : (encMsg m).length < 256 ^ 126) :
    MsgL (fillRaw m) (encMsg m) :=
  Proofs.msgL_encMsg m h hb

theorem same_as_own (regs : Regs) (m : Msg) (bs : Bytes) (depth : Nat)
    (h : MsgL (fillRaw m) bs) (hwf : m.WF regs) (hd : m.op.filterDepth < depth) :
    decMsg regs depth bs = decMsg regs depth (encMsg m) :=
  Proofs.decMsg_lenient_eq_own regs m bs depth h hwf hd

/-! non-vacuity: an Active-Directory style encoding (4-octet lengths everywhere) of a bind
    response with an explicit trailing unknown element -/
example : MsgL ⟨1, .bindResp ⟨0, [], [], none⟩ none, []⟩
    [48, 132, 0, 0, 0, 20, 2, 1, 1, 97, 132, 0, 0, 0, 11, 10, 1, 0, 4, 0, 4, 0, 138, 2, 120, 121] :=
  Proofs.sample_lenient
example : decMsg {} 1 [48, 132, 0, 0, 0, 20, 2, 1, 1, 97, 132, 0, 0, 0, 11, 10, 1, 0, 4, 0, 4, 0, 138, 2, 120, 121]
    = .ok (⟨1, .bindResp ⟨0, [], [], none⟩ none, []⟩, []) := by rfl

end Verif.C04
