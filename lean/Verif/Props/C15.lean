/-
C15 — the filter parser is total and only accepts what it can faithfully represent.
-/
import Verif.Spec.FilterWF
import Verif.Proofs.FilterTotal
import Verif.Proofs.FilterRoundTrip

namespace Verif.C15
open Verif

/-- Totality, for any text at all (any scalar values, any nesting, any recursion budget):
    parsing returns a filter or the filter-syntax error, whose offset and length lie inside
    the input (the UTF-8 encoding of the stripped text — the parser's coordinates).  The
    scan loops never run out of fuel and the recursion error never escapes. -/
theorem total (depth : Nat) (s : List Nat) :
    (∃ f, parseFilterText depth s = .ok f) ∨
      (∃ off len, parseFilterText depth s = .error (.syntax off len) ∧
        off + len ≤ (utf8Encode (pyStrip s)).length) :=
  Proofs.parse_total depth s

/-- Whenever the parser accepts, every attribute description and matching rule in the result
    matches the attribute pattern … -/
theorem accepted_attrs_valid (depth : Nat) (s : List Nat) (f : Filter)
    (h : parseFilterText depth s = .ok f) : f.AttrsValid :=
  Proofs.parse_attrs_valid depth s f h

/-- … the result lies in the text domain of C13 … -/
theorem accepted_in_domain (depth : Nat) (s : List Nat) (f : Filter)
    (hs : ∀ c ∈ s, c < 1114112)
    (h : parseFilterText depth s = .ok f) : f.WFText :=
  Proofs.parse_wftext depth s f hs h

/-- … and therefore its own text form parses back to the same result -/
theorem accepted_reparses (depth : Nat) (s : List Nat) (f : Filter)
    (hs : ∀ c ∈ s, c < 1114112)
    (h : parseFilterText depth s = .ok f) :
    ∀ d, Filter.depth f < d → parseFilterText d (toText f) = .ok f := by
  intro d hd
  exact Proofs.parse_toText f d (accepted_in_domain depth s f hs h) hd

/-! non-vacuity: an unbalanced nested input whose error span is inside the 4-byte input, and
    an accepted one -/
example : parseFilterText 10 [40, 38, 40, 61] = .error (.syntax 2 1) := by rfl
example : ∃ f, parseFilterText 10 [32, 40, 99, 110, 61, 42, 41, 10] = .ok f := ⟨.present [99, 110], by rfl⟩

end Verif.C15
