/-
C18 (continued) — decoding a received filter.

`Model/DecodeCost.lean` is the BER filter decoder with a counter for the calls of
`LDAPFilter.unpack`.  For every input (any bytes, any registrations, any recursion budget) the
counting decoder returns what the decoder of the message model returns, and the number of calls
is at most half the input length plus one.
-/
import Verif.Model.DecodeCost
import Verif.Proofs.DecodeCost

namespace Verif.C18
open Verif

/-- the counting decoder computes exactly the model's decoder -/
theorem decode_counting_same_result (regs : Regs) (depth : Nat) (bs : Bytes) :
    (DecodeCost.decFilterC regs depth bs).1 = decFilter regs depth bs :=
  Proofs.DecodeCostP.counting_same_result regs depth bs

/-- at most one `LDAPFilter.unpack` call per two input bytes, plus one -/
theorem decode_calls_linear (regs : Regs) (depth : Nat) (bs : Bytes) :
    (DecodeCost.decFilterC regs depth bs).2 ≤ bs.length / 2 + 1 :=
  Proofs.DecodeCostP.calls_linear regs depth bs

/-! non-vacuity: `(!(!(cn=*)))` as BER — `a2 06 a2 04 87 02 63 6e` — makes 3 calls -/
example : (DecodeCost.decFilterC ⟨false, false, false⟩ 50 [0xa2, 6, 0xa2, 4, 0x87, 2, 0x63, 0x6e]).2 = 3 := by rfl

end Verif.C18
