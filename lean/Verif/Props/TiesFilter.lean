/-
Ties between the Lean text GENERATED from the Python source of `sansldap/_filter.py`
(`Verif/Generated/FilterGen.lean`, written by `harness/py2lean.py` on every run) and the hand-written
model of the filter text parser, `Verif/Model/FilterText.lean` (the model C13, C14, C15 are about).

Each theorem: for all inputs and all sufficient fuel, the generated function returns exactly what the
hand-model function returns: the same filter tree, the same consumed count, the same
`FilterSyntaxError` offset and length.  Python ints are `Int`, model numbers are `Nat`; the fixed casts are
  `ofFErr : FErr → GErr` (offset and length cast), `castRes` (on `(filter, consumed)` results),
  `castF` (on filters), `orSyntax off len : Option α → Except GErr α` (a model helper's `none` is the
  `FilterSyntaxError(offset=off, length=len)` of the arguments the Python helper was given).
`win view off len = view[off : off + len]`; the hypothesis `off + len ≤ view.length` is what every call
in `_filter.py` satisfies (`from_string` starts with the whole view, every callee gets a sub-window).
Since the model never returns `GErr.other` (IndexError in the runtime), the equalities also say that no
IndexError can occur; `GErr.fuel` occurs on neither side for the fuel stated.

Proofs: `Verif/Proofs/FilterGen*.lean`.  Axioms: propext, Classical.choice, Quot.sound.
See design_notes/py2lean_filter.md.

Domain caveat (third statement audit, F1): `tie_from_string` is stated for every list of code points, like `C15.total`; a Python `str` can
also hold lone surrogates outside U+DC80..DCFF, for which `.encode("utf-8", "surrogateescape")` raises UnicodeEncodeError before parsing starts
(the model's `utf8Encode` is total), and numbers >= 0x110000 are no `str` at all.  Both are outside the text domain (DESIGN.md §2 item 5).
-/
import Verif.Proofs.FilterGenTop

namespace Verif.TiesFilter

open Verif Verif.FilterRt Verif.FilterGen Verif.Proofs.FilterGen
open Verif.Proofs (instDecidableEqExcept)

/-! ### `_unpack_filter_extensible_header` — for every header and every (offset, length) -/

theorem tie_unpack_filter_extensible_header (header : Bytes) (off len : Int) :
    unpack_filter_extensible_header header off len = orSyntax off len (extHeader header) :=
  unpack_filter_extensible_header_eq header off len

example : unpack_filter_extensible_header [99, 110, 58, 68, 78, 58, 50, 46, 53] 1 9
    = .ok (some [99, 110], true, some [50, 46, 53]) := by decide
example : unpack_filter_extensible_header [58, 49, 97] 4 3 = .error (.syntax 4 3) := by decide

/-! ### `_unpack_filter_substrings_value` — on its domain: values that contain `*`
(the only call site passes such a value; on a value without `*` the Python returns `(first, [], None)`
while the model's `substringsValue` says "unreachable" = `none`: recorded in the note as a modelling gap
outside the reachable domain) -/

theorem tie_unpack_filter_substrings_value (raw : Bytes) (off len : Int) (h : cStar ∈ raw) :
    unpack_filter_substrings_value raw off len = orSyntax off len (substringsValue raw) :=
  unpack_filter_substrings_value_eq raw off len h

example : unpack_filter_substrings_value [97, 42, 98, 42, 92, 52, 49, 42] 3 8
    = .ok (some [97], [[98], [65]], none) := by decide
example : unpack_filter_substrings_value [97, 42, 42, 98] 3 4 = .error (.syntax 3 4) := by decide
/-- outside the domain: the generated code (= the Python) and the model differ -/
example : unpack_filter_substrings_value [97] 0 1 = .ok (some [97], [], none)
    ∧ substringsValue [97] = none := by decide

/-! ### `_unpack_simple_filter` -/

theorem tie_unpack_simple_filter (view : Bytes) (off len : Nat) (h : off + len ≤ view.length) :
    unpack_simple_filter view (off : Int) (len : Int) = castRes (unpackSimple (win view off len) off) :=
  unpack_simple_filter_eq view off len h

/-! ### `_unpack_complex_filter` — for every recursive argument that is tied to the model's -/

theorem tie_unpack_complex_filter (rec : List Nat → Int → Int → Except GErr (Filter × Int))
    (uf : Bytes → Nat → Except FErr (Filter × Nat)) (view : Bytes) (hrec : RecTie rec uf view)
    (hok : Verif.Proofs.FilterTotal.UfOk QT PT uf) (off len : Nat) (h : off + len ≤ view.length) (h1 : 1 ≤ len)
    (fuel : Nat) (hF : len < fuel) :
    unpack_complex_filter rec fuel view (off : Int) (len : Int)
      = castRes (unpackComplex uf (win view off len) off) :=
  unpack_complex_filter_eq rec uf view hrec hok off len h h1 fuel hF

/-- the instance that occurs: one level down in the recursive descent -/
theorem tie_unpack_complex_filter_rec (fuel depth : Nat) (view : Bytes) (hfuel : view.length + 1 < fuel)
    (off len : Nat) (h : off + len ≤ view.length) (h1 : 1 ≤ len) :
    unpack_complex_filter (unpack_filter fuel depth) fuel view (off : Int) (len : Int)
      = castRes (unpackComplex (unpackFilter depth) (win view off len) off) :=
  unpack_complex_filter_eq _ _ view (fun o l hl => unpack_filter_eq fuel view hfuel depth o l hl)
    (Verif.Proofs.FilterTotal.unpackFilter_ok Verif.Proofs.FilterTotal.ctxTrue depth) off len h h1 fuel (by omega)

/-! ### `_unpack_filter` — every depth budget, every window, every fuel above `len(view) + 1` -/

theorem tie_unpack_filter (fuel depth : Nat) (view : Bytes) (hfuel : view.length + 1 < fuel)
    (off len : Nat) (h : off + len ≤ view.length) :
    unpack_filter fuel depth view (off : Int) (len : Int)
      = castRes (unpackFilter depth (win view off len) off) :=
  unpack_filter_eq fuel view hfuel depth off len h

/-! ### `LDAPFilter.from_string` -/

theorem tie_from_string (fuel depth : Nat) (s : List Nat)
    (hfuel : (utf8Encode (pyStrip s)).length + 1 < fuel) :
    LDAPFilter_from_string fuel depth s = castF (parseFilterText depth s) :=
  from_string_eq fuel depth s hfuel

/-! non-vacuity (kernel evaluation of the generated text; `Filter` has no `DecidableEq`, hence `rfl`) -/

-- "(cn=a*)"
example : unpack_simple_filter [40, 99, 110, 61, 97, 42, 41] 1 6
    = .ok (Filter.substr [99, 110] (some [97]) [] none, 5) := by rfl
-- " (&(a=b)(!(c:dn:=\41)))"
example : LDAPFilter_from_string 40 5
      [32, 40, 38, 40, 97, 61, 98, 41, 40, 33, 40, 99, 58, 100, 110, 58, 61, 92, 52, 49, 41, 41, 41]
    = .ok (Filter.and [Filter.eq [97] [98], Filter.not (Filter.ext none (some [99]) [65] true)]) := by rfl
-- "(a=b" : unbalanced, offset 0 length 4;  "(a=b)x" : trailing data
example : LDAPFilter_from_string 40 5 [40, 97, 61, 98] = .error (.syntax 0 4) := by rfl
example : LDAPFilter_from_string 40 5 [40, 97, 61, 98, 41, 120] = .error (.syntax 5 1) := by rfl
-- depth budget used up: `from_string` turns the RecursionError into FilterSyntaxError(0, len)
example : LDAPFilter_from_string 40 1 [40, 33, 40, 97, 61, 98, 41, 41] = .error (.syntax 0 8) := by rfl
example : unpack_filter 40 0 [40, 97, 61, 98, 41] 0 5 = .error .recursion := by rfl

end Verif.TiesFilter
