/-
C17 — schema text is parsed as RFC 4512 defines it.
-/
import Verif.Spec.Rfc4512
import Verif.Proofs.SchemaGrammar

namespace Verif.C17
open Verif Verif.Schema Verif.Rfc4512

/-- every sentence of the ObjectClassDescription grammar (any spacing, bare or parenthesised
    lists, either escape case, `X-`/`x-`, explicit or omitted STRUCTURAL) is accepted and every
    field of the result is what the grammar denotes -/
theorem object_class (d : ObjectClass) (s : Str) (h : OCSent d s) : parseOC s = .ok d :=
  Proofs.parseOC_sentence d s h

/-- likewise for AttributeTypeDescription, including the quoted SYNTAX Active Directory emits -/
theorem attribute_type (d : AttributeType) (s : Str) (h : ATSent d s) : parseAT s = .ok d :=
  Proofs.parseAT_sentence d s h

/-- likewise for DITContentRuleDescription -/
theorem dit_content_rule (d : DITContentRule) (s : Str) (h : DCRSent d s) : parseDCR s = .ok d :=
  Proofs.parseDCR_sentence d s h

/-- totality over all strings: a definition or ValueError, nothing else.  (In the model this is
    by construction — `PErr` has the single constructor `valueError`; that the implementation
    raises nothing else is what the correspondence on mutated and random strings checks.) -/
theorem total (s : Str) :
    ((∃ d, parseOC s = .ok d) ∨ parseOC s = .error .valueError) ∧
    ((∃ d, parseAT s = .ok d) ∨ parseAT s = .error .valueError) ∧
    ((∃ d, parseDCR s = .ok d) ∨ parseDCR s = .error .valueError) := by
  refine ⟨?_, ?_, ?_⟩
  · cases h : parseOC s with
    | ok d => exact .inl ⟨d, rfl⟩
    | error e => cases e; exact .inr rfl
  · cases h : parseAT s with
    | ok d => exact .inl ⟨d, rfl⟩
    | error e => cases e; exact .inr rfl
  · cases h : parseDCR s with
    | ok d => exact .inl ⟨d, rfl⟩
    | error e => cases e; exact .inr rfl

/-! non-vacuity: `(1.2  NAME ( 'a'  'b' ) DESC 'x\27\5Cy' SUP ( top$person ) x-k  'v' )` -/
example : ∃ d, parseOC (ofString "(1.2  NAME ( 'a'  'b' ) DESC 'x\\27\\5Cy' SUP ( top$person ) x-k  'v' )") = .ok d ∧
    d.names = [ofString "a", ofString "b"] ∧ d.desc = some (ofString "x'\\y") ∧ d.sup = [ofString "top", ofString "person"] ∧
    d.exts = [(ofString "k", [ofString "v"])] :=
  ⟨{ oid := ofString "1.2", names := [ofString "a", ofString "b"], desc := some (ofString "x'\\y"),
     sup := [ofString "top", ofString "person"], exts := [(ofString "k", [ofString "v"])] },
   by rfl, by decide, by decide, by decide, by decide⟩
example : OCSent { oid := ofString "1.2", kind := 1 } (ofString "( 1.2 )") :=
  Proofs.sample_oc_sentence

end Verif.C17
