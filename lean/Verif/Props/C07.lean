/-
C07 — BER primitives agree with an arithmetic oracle in both directions (asn1.py).

Property theorems only; helper lemmas live in `Verif/Proofs/Ber*.lean`.
-/
import Verif.Model.Ber
import Verif.Spec.Twos
import Verif.Proofs.BerInt
import Verif.Proofs.BerHeader

namespace Verif.C07

open Verif

/-- tags the library's reader can return: a real class, and for UNIVERSAL only numbers that
    are members of `TypeTagNumber` (the excluded point is known finding F-C07b). -/
def Readable (t : Tag) : Prop := t.cls < 4 ∧ (t.cls = 0 → t.num ≤ 36)

/-- lengths whose long form needs fewer than 127 length octets (every length a Python
    object can have) -/
def LenOk (n : Nat) : Prop := n < 256 ^ 126

/-- the writer emits bytes, they denote `v`, and they are minimal — for every integer -/
theorem int_write (v : Int) :
    IsBytes (intContent v) ∧ twos (intContent v) = v ∧ Minimal (intContent v) :=
  Proofs.intContent_spec v

/-- the reader maps any non-empty content octets, minimal or padded, to their
    two's-complement value -/
theorem int_read (c : Bytes) (hb : IsBytes c) (hne : c ≠ []) :
    readIntContent c = .ok (twos c) :=
  Proofs.readIntContent_eq_twos c hb hne

/-- empty content is rejected with ValueError (never IndexError) -/
theorem int_read_empty : readIntContent [] = .error .valueError := rfl

/-- reading what was written returns the same integer, for every value of either sign and
    any size -/
theorem int_roundtrip_content (v : Int) : readIntContent (intContent v) = .ok v := by
  have h := int_write v
  have hne : intContent v ≠ [] := by
    intro h0; have := h.2.2; rw [h0] at this; exact this
  rw [int_read _ h.1 hne, h.2.1]

/-- every tag (any class, any number incl. multi-octet, either form) and every length
    (short and long form) written is read back identically, whatever follows -/
theorem header_roundtrip (t : Tag) (n : Nat) (rest : Bytes) (ht : Readable t) (hn : LenOk n) :
    readHeader (packHeader t n ++ rest) = .ok ⟨t, (packHeader t n).length, n⟩ :=
  Proofs.readHeader_packHeader t n rest ht.1 ht.2 hn

/-- lenient reading: any long-form length of 1..127 octets, leading zeros included (such as
    the fixed 4-octet lengths Active Directory emits), reads as its big-endian value -/
theorem header_long_form (t : Tag) (ds rest : Bytes) (ht : Readable t) (hb : IsBytes ds)
    (h1 : 1 ≤ ds.length) (h2 : ds.length ≤ 127) :
    readHeader (packTag t ++ (128 + ds.length) :: ds ++ rest)
      = .ok ⟨t, (packTag t).length + 1 + ds.length, beNat ds⟩ :=
  Proofs.readHeader_longForm t ds rest ht.1 ht.2 hb h1 h2

/-- a reader returns exactly the content that was written and consumes exactly the value's
    octets: nothing of `rest` is touched -/
theorem tlv_roundtrip (t : Tag) (c rest : Bytes) (ht : Readable t) (hn : LenOk c.length) :
    readTLV (some t) (packTLV t c ++ rest) = .ok (c, rest) :=
  Proofs.readTLV_packTLV t c rest ht.1 ht.2 hn

theorem int_roundtrip (v : Int) (t : Tag) (rest : Bytes) (ht : Readable t) :
    readInt (some t) (packInt v t ++ rest) = .ok (v, rest) :=
  Proofs.readInt_packInt v t rest ht.1 ht.2

theorem bool_roundtrip (b : Bool) (t : Tag) (rest : Bytes) (ht : Readable t) :
    readBool (some t) (packBool b t ++ rest) = .ok (b, rest) :=
  Proofs.readBool_packBool b t rest ht.1 ht.2

theorem octets_roundtrip (c : Bytes) (t : Tag) (rest : Bytes) (ht : Readable t) (hn : LenOk c.length) :
    readOctets (some t) (packOctets c t ++ rest) = .ok (c, rest) :=
  tlv_roundtrip t c rest ht hn

/-! Non-vacuity: the hypotheses are met by concrete non-trivial values. -/
example : Readable (tagCtx 1024 true) ∧ LenOk 70000 := by
  refine ⟨⟨by decide, by decide⟩, ?_⟩
  unfold LenOk
  calc 70000 < 256 ^ 3 := by decide
    _ ≤ 256 ^ 126 := Nat.pow_le_pow_right (by decide) (by decide)
example : readIntContent (intContent (-8388608)) = .ok (-8388608) := by decide
example : intContent (-8388608) = [128, 0, 0] := by decide

end Verif.C07
