/-
C09 — a client correlates responses to requests strictly by message id.
-/
import Verif.Spec.SessionSpec
import Verif.Proofs.Session

namespace Verif.C09
open Verif

/-- ids handed out by a client over ANY history of calls and deliveries are
    `first, first+1, first+2, …` in call order: positive, strictly increasing, never reused;
    refused calls consume none -/
theorem ids_sequential (cs : List Call) :
    issuedIds (Sess.init .client) cs
      = (List.range (issuedIds (Sess.init .client) cs).length).map (fun (i : Nat) => Facts.firstMessageId + (i : Int)) :=
  Proofs.ids_sequential cs

theorem first_id_positive : 0 < Facts.firstMessageId := by decide

/-- the id returned to the caller is the id inside the bytes put on the wire -/
theorem id_in_bytes (s : Sess) (c : Call) (id : Int) (hrole : s.role = .client)
    (h : (step s c).2 = .sent id) :
    ∃ m, msgOf s c = some m ∧ m.id = id ∧ (step s c).1.out = s.out ++ encMsg m :=
  Proofs.id_in_bytes s c id hrole h

/-- bookkeeping invariant of every reachable client: searches are outstanding operations -/
theorem searches_outstanding (s : Sess) (hr : Reachable s) (hrole : s.role = .client) (hs : s.state ≠ .closed) :
    ∀ i ∈ s.searches, i ∈ s.outstanding :=
  Proofs.client_searches_outstanding s hr hrole hs

/-- a message delivered to an open client is accepted iff it is a response whose id belongs
    to an operation still in progress -/
theorem accepted_iff (s : Sess) (m : Msg) (hr : Reachable s) (hrole : s.role = .client)
    (hs : s.state ≠ .closed) :
    (clientProcess s m).isSome = true ↔ (m.op.isResponse = true ∧ m.id ∈ s.outstanding) :=
  Proofs.client_accepted_iff s m hr hrole hs

/-- after an accepted response the operation is still in progress iff it is a search and
    the response is not its SearchResultDone; no KeyError can occur -/
theorem lifetime (s : Sess) (m : Msg) (hr : Reachable s) (hrole : s.role = .client) (hs : s.state ≠ .closed)
    (ha : (clientProcess s m).isSome = true) :
    ∃ s', clientProcess s m = some (s', false) ∧
      (m.id ∈ s'.outstanding ↔ (m.id ∈ s.searches ∧ (match m.op with | .searchDone .. => False | _ => True))) ∧
      (∀ j, j ≠ m.id → (j ∈ s'.outstanding ↔ j ∈ s.outstanding)) :=
  Proofs.client_lifetime s m hr hrole hs ha

/-- delivering messages to an open client: if any of them is a request-type message, or a
    response for an unknown / completed / zero id, `receive` raises ProtocolError and the
    session is closed -/
theorem reject_closes (d : Nat) (s : Sess) (chunk : Bytes) (ms : List Msg) (rest : Bytes) (m : Msg)
    (hr : Reachable s) (hrole : s.role = .client) (hs : s.state ≠ .closed)
    (hp : parseLoop s.regs d (s.residue ++ chunk).length (s.residue ++ chunk) = .ok (ms, rest))
    (hm : ms = [m]) (hbad : ¬(m.op.isResponse = true ∧ m.id ∈ s.outstanding)) :
    (∃ n, (recv d s chunk).2 = .protocolError n) ∧ (recv d s chunk).1.state = .closed :=
  Proofs.client_reject_closes d s chunk ms rest m hr hrole hs hp hm hbad

/-! non-vacuity -/
example : issuedIds (Sess.init .client)
    [.extended [49] none [], .unbind, .extended [49] none [], .search [] 0 0 0 0 false none [] []] = [1] := by decide
example : issuedIds (Sess.init .client)
    [.search [] 0 0 0 0 false none [] [], .extended [49] none [], .bind [] (.simple []) [], .extended [50] none []] = [1, 2, 3] := by decide

end Verif.C09
