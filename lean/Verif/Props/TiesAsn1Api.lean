/-
Ties for the part of `sansldap/asn1.py` that the message codec REALLY calls: the thin wrappers
`_read_asn1_octet_string`, `_read_asn1_sequence`, `_read_asn1_set`, `_read_asn1_enumerated`,
`_pack_asn1_enumerated`, `_pack_asn1_octet_string`, and the public classes `ASN1Reader` / `ASN1Writer`
(generated text: `Verif/Generated/Asn1Gen.lean`, written by `harness/py2lean.py` on every run; hand model:
`Verif/Model/Ber.lean`).  Continues `Props/TiesAsn1.lean` / `TiesAsn1More.lean`.

Conventions of the generated text (design_notes/py2lean.md, "Classes"):
  * `ASN1Reader` is the record `⟨view⟩` (the remaining bytes; `_data` is never read by a method and is
    not part of the state), `ASN1Writer` the record `⟨data, tag, parent⟩`;
  * a method that changes `self` returns the state afterwards, beside its value if it has one
    (`read_x : (value × ASN1Reader)`, `write_x : ASN1Writer`); a method that does not, returns its value only
    (`peek_header`, `__bool__`, `get_data`, `push_sequence`), so "state unchanged" is by construction;
  * `enum_type(val)` of `read_enumerated` is a PARAMETER `enum_type : Int → Except Err Int`;
  * `with w.push_sequence(tag) as c: BODY` is `ASN1Writer_with_push_sequence fuel w tag body`, `body` the
    effect of BODY on the child's state.

Reader call shapes (`Shape bs num cons tag header e`, `Proofs/Asn1GenApi.lean`): `(tag=t)` ↦ model
`expect = some t`; `()` ↦ `some (universal num cons)`; `(header=h)` with `h = peek_header()` ↦ `none` (the
header's own tag); `(tag=t, header=h)` ↦ `some t`.  Every reader theorem is for all four.
The reader state afterwards is the model's remainder, which is `bs.drop consumed` (`readTLV_rest`).

Proofs: `Verif/Proofs/Asn1GenApi.lean`, `Asn1GenApiClasses.lean`.  Axioms: propext, Classical.choice,
Quot.sound.  No theorem here is partial.
-/
import Verif.Proofs.Asn1GenApiClasses

namespace Verif.TiesAsn1

open Verif Verif.PyRt Verif.Asn1Gen Verif.Proofs.Asn1Gen
open Verif.Proofs (instDecidableEqExcept)

/-! ## 1. the six wrappers -/

/-! ### `_read_asn1_octet_string`, `_read_asn1_sequence`, `_read_asn1_set` -/

/-- every call shape; `readOctets = readTLV` -/
theorem tie_read_asn1_octet_string_shape (fuel : Nat) (bs : Bytes) (hb : IsBytes bs) (hf : bs.length < fuel)
    (tag : Option ASN1Tag) (header : Option ASN1Header) (e : Option Tag) (hs : Shape bs 4 false tag header e) :
    read_asn1_octet_string fuel bs tag header = (readOctets e bs).map (consumedOf bs) := by
  rw [read_asn1_octet_string_eq]; exact validate_tag_shape fuel bs 4 false hb hf tag header e hs

theorem tie_read_asn1_sequence_shape (fuel : Nat) (bs : Bytes) (hb : IsBytes bs) (hf : bs.length < fuel)
    (tag : Option ASN1Tag) (header : Option ASN1Header) (e : Option Tag) (hs : Shape bs 16 true tag header e) :
    read_asn1_sequence fuel bs tag header = (readTLV e bs).map (consumedOf bs) := by
  rw [read_asn1_sequence_eq]; exact validate_tag_shape fuel bs 16 true hb hf tag header e hs

theorem tie_read_asn1_set_shape (fuel : Nat) (bs : Bytes) (hb : IsBytes bs) (hf : bs.length < fuel)
    (tag : Option ASN1Tag) (header : Option ASN1Header) (e : Option Tag) (hs : Shape bs 17 true tag header e) :
    read_asn1_set fuel bs tag header = (readTLV e bs).map (consumedOf bs) := by
  rw [read_asn1_set_eq]; exact validate_tag_shape fuel bs 17 true hb hf tag header e hs

/-- `_read_asn1_octet_string(data, tag)` -/
theorem tie_read_asn1_octet_string (fuel : Nat) (bs : Bytes) (t : Tag) (hb : IsBytes bs) (hf : bs.length < fuel) :
    read_asn1_octet_string fuel bs (some (ofTag t)) none = (readOctets (some t) bs).map (consumedOf bs) :=
  tie_read_asn1_octet_string_shape fuel bs hb hf _ _ _ (.tag t)

/-- `_read_asn1_octet_string(data)`: the universal OCTET STRING tag -/
theorem tie_read_asn1_octet_string_default (fuel : Nat) (bs : Bytes) (hb : IsBytes bs) (hf : bs.length < fuel) :
    read_asn1_octet_string fuel bs none none = (readOctets (some tOctets) bs).map (consumedOf bs) :=
  tie_read_asn1_octet_string_shape fuel bs hb hf _ _ _ .default

/-- `_read_asn1_octet_string(data, header=h)`, `h = peek_header()`: the model's `expect = none` -/
theorem tie_read_asn1_octet_string_header (fuel : Nat) (bs : Bytes) (h : Header) (hb : IsBytes bs)
    (hf : bs.length < fuel) (hr : readHeader bs = .ok h) :
    read_asn1_octet_string fuel bs none (some (ofHeader h)) = (readOctets none bs).map (consumedOf bs) :=
  tie_read_asn1_octet_string_shape fuel bs hb hf _ _ _ (.header h hr)

theorem tie_read_asn1_sequence (fuel : Nat) (bs : Bytes) (t : Tag) (hb : IsBytes bs) (hf : bs.length < fuel) :
    read_asn1_sequence fuel bs (some (ofTag t)) none = (readTLV (some t) bs).map (consumedOf bs) :=
  tie_read_asn1_sequence_shape fuel bs hb hf _ _ _ (.tag t)

/-- `_read_asn1_sequence(data)`: universal SEQUENCE, constructed -/
theorem tie_read_asn1_sequence_default (fuel : Nat) (bs : Bytes) (hb : IsBytes bs) (hf : bs.length < fuel) :
    read_asn1_sequence fuel bs none none = (readTLV (some tSeq) bs).map (consumedOf bs) :=
  tie_read_asn1_sequence_shape fuel bs hb hf _ _ _ .default

theorem tie_read_asn1_sequence_header (fuel : Nat) (bs : Bytes) (h : Header) (hb : IsBytes bs)
    (hf : bs.length < fuel) (hr : readHeader bs = .ok h) :
    read_asn1_sequence fuel bs none (some (ofHeader h)) = (readTLV none bs).map (consumedOf bs) :=
  tie_read_asn1_sequence_shape fuel bs hb hf _ _ _ (.header h hr)

theorem tie_read_asn1_set (fuel : Nat) (bs : Bytes) (t : Tag) (hb : IsBytes bs) (hf : bs.length < fuel) :
    read_asn1_set fuel bs (some (ofTag t)) none = (readTLV (some t) bs).map (consumedOf bs) :=
  tie_read_asn1_set_shape fuel bs hb hf _ _ _ (.tag t)

/-- `_read_asn1_set(data)`: universal SET, constructed -/
theorem tie_read_asn1_set_default (fuel : Nat) (bs : Bytes) (hb : IsBytes bs) (hf : bs.length < fuel) :
    read_asn1_set fuel bs none none = (readTLV (some tSet) bs).map (consumedOf bs) :=
  tie_read_asn1_set_shape fuel bs hb hf _ _ _ .default

theorem tie_read_asn1_set_header (fuel : Nat) (bs : Bytes) (h : Header) (hb : IsBytes bs)
    (hf : bs.length < fuel) (hr : readHeader bs = .ok h) :
    read_asn1_set fuel bs none (some (ofHeader h)) = (readTLV none bs).map (consumedOf bs) :=
  tie_read_asn1_set_shape fuel bs hb hf _ _ _ (.header h hr)

example : read_asn1_octet_string 6 [4, 2, 7, 8, 9] none none = .ok ([7, 8], 4) := by decide
example : read_asn1_octet_string 6 [0x85, 1, 7] (some (ofTag (tagCtx 5))) none = .ok ([7], 3) := by decide
example : read_asn1_octet_string 6 [2, 1, 7] none none = .error .valueError := by decide
example : read_asn1_octet_string 0 [2, 1, 7] none (some (ofHeader ⟨tInt, 2, 1⟩)) = .ok ([7], 3) := by decide
example : read_asn1_sequence 6 [0x30, 3, 2, 1, 5, 9] none none = .ok ([2, 1, 5], 5) := by decide
example : read_asn1_sequence 6 [0x10, 0] none none = .error .valueError := by decide   -- primitive bit
example : read_asn1_set 6 [0x31, 1, 5] none none = .ok ([5], 3) := by decide
example : read_asn1_set 6 [0x31, 2, 5] none none = .error .notEnough := by decide

/-! ### `_read_asn1_enumerated` -/

theorem tie_read_asn1_enumerated_shape (fuel : Nat) (bs : Bytes) (hb : IsBytes bs) (hf : bs.length < fuel)
    (tag : Option ASN1Tag) (header : Option ASN1Header) (e : Option Tag) (hs : Shape bs 10 false tag header e) :
    read_asn1_enumerated fuel bs tag header = (readInt e bs).map (consumedOfV bs) :=
  read_asn1_enumerated_shape fuel bs hb hf tag header e hs

theorem tie_read_asn1_enumerated (fuel : Nat) (bs : Bytes) (t : Tag) (hb : IsBytes bs) (hf : bs.length < fuel) :
    read_asn1_enumerated fuel bs (some (ofTag t)) none = (readInt (some t) bs).map (consumedOfV bs) :=
  read_asn1_enumerated_shape fuel bs hb hf _ _ _ (.tag t)

/-- `_read_asn1_enumerated(data)`: the universal ENUMERATED tag -/
theorem tie_read_asn1_enumerated_default (fuel : Nat) (bs : Bytes) (hb : IsBytes bs) (hf : bs.length < fuel) :
    read_asn1_enumerated fuel bs none none = (readInt (some tEnum) bs).map (consumedOfV bs) :=
  read_asn1_enumerated_shape fuel bs hb hf _ _ _ .default

theorem tie_read_asn1_enumerated_header (fuel : Nat) (bs : Bytes) (h : Header) (hb : IsBytes bs)
    (hf : bs.length < fuel) (hr : readHeader bs = .ok h) :
    read_asn1_enumerated fuel bs none (some (ofHeader h)) = (readInt none bs).map (consumedOfV bs) :=
  read_asn1_enumerated_shape fuel bs hb hf _ _ _ (.header h hr)

example : read_asn1_enumerated 6 [10, 1, 3, 9] none none = .ok (3, 3) := by decide
example : read_asn1_enumerated 6 [2, 1, 3] none none = .error .valueError := by decide
example : read_asn1_enumerated 6 [10, 0] none none = .error .valueError := by decide

/-! ### `_pack_asn1_enumerated`, `_pack_asn1_octet_string` -/

/-- `_pack_asn1_enumerated` IS `_pack_asn1_integer` under the caller's tag or universal ENUMERATED -/
theorem tie_pack_asn1_enumerated_integer (fuel : Nat) (v : Int) (tag : Option ASN1Tag) :
    pack_asn1_enumerated fuel v tag = pack_asn1_integer fuel v (some (tagOr tag 10)) :=
  pack_asn1_enumerated_eq fuel v tag

theorem tie_pack_asn1_enumerated (fuel : Nat) (v : Int) (t : Tag) (hc : t.cls ≤ 3)
    (hnum : t.num < 31 ∨ (packOctetNumber t.num).length < fuel)
    (hv : (intContent v).length ≤ fuel) (hlen : (intContent v).length < 256 ^ 127) :
    pack_asn1_enumerated fuel v (some (ofTag t)) = .ok (packEnum v t) :=
  pack_asn1_enumerated_sz fuel v t hc hnum hv hlen

theorem tie_pack_asn1_enumerated_default (fuel : Nat) (v : Int)
    (hv : (intContent v).length ≤ fuel) (hlen : (intContent v).length < 256 ^ 127) :
    pack_asn1_enumerated fuel v none = .ok (packEnum v) :=
  pack_asn1_enumerated_default_sz fuel v hv hlen

/-- fuel only for a tag number `≥ 31` and for the length octets of a content of `≥ 128` octets;
    `c.length < 256 ^ 127` as in `tie_pack_asn1` -/
theorem tie_pack_asn1_octet_string (fuel : Nat) (c : Bytes) (t : Tag) (hc : t.cls ≤ 3)
    (hnum : t.num < 31 ∨ (packOctetNumber t.num).length < fuel)
    (hlenf : c.length < 128 ∨ (packLen c.length).length ≤ fuel) (hlen : c.length < 256 ^ 127) :
    pack_asn1_octet_string fuel c (some (ofTag t)) = .ok (packOctets c t) :=
  pack_asn1_octet_string_sz fuel c t hc hnum hlenf hlen

theorem tie_pack_asn1_octet_string_default (fuel : Nat) (c : Bytes)
    (hlenf : c.length < 128 ∨ (packLen c.length).length ≤ fuel) (hlen : c.length < 256 ^ 127) :
    pack_asn1_octet_string fuel c none = .ok (packOctets c) :=
  pack_asn1_octet_string_default_sz fuel c hlenf hlen

example : pack_asn1_enumerated 1 3 none = .ok [10, 1, 3] := by decide
example : pack_asn1_enumerated 2 (-129) (some (ofTag (tagCtx 3))) = .ok [0x83, 2, 0xFF, 0x7F] := by decide
example : pack_asn1_octet_string 0 [7, 8] none = .ok [4, 2, 7, 8] := by decide
example : pack_asn1_octet_string 2 [7] (some (ofTag (tagCtx 40 true))) = .ok [0xBF, 40, 1, 7] := by decide

/-! ## 2. `ASN1Reader` -/

/-- `ASN1Reader(data)` -/
theorem tie_reader_init (bs : Bytes) : ASN1Reader_init bs = .ok ⟨bs⟩ := rfl

/-- `bool(reader)` -/
theorem tie_reader_bool (bs : Bytes) : ASN1Reader_bool ⟨bs⟩ = .ok (decide (bs ≠ [])) := rfl

/-- `reader.peek_header()`; the method returns no state: the reader is unchanged -/
theorem tie_reader_peek_header (fuel : Nat) (bs : Bytes) (hb : IsBytes bs) (hf : bs.length < fuel) :
    ASN1Reader_peek_header fuel ⟨bs⟩ = (readHeader bs).map ofHeader :=
  read_asn1_header_eq fuel bs hb hf

/-- `reader.skip_value(h)` for any header with non-negative fields -/
theorem tie_reader_skip_value (bs : Bytes) (h : Header) :
    ASN1Reader_skip_value ⟨bs⟩ (ofHeader h) = .ok ⟨bs.drop (h.hlen + h.len)⟩ :=
  reader_skip_value_eq bs h

/-- `reader.skip_value(reader.peek_header())` is the model's `skipValue` -/
theorem tie_reader_peek_skip (fuel : Nat) (bs : Bytes) (hb : IsBytes bs) (hf : bs.length < fuel) :
    (ASN1Reader_peek_header fuel ⟨bs⟩ >>= fun h => ASN1Reader_skip_value ⟨bs⟩ h)
      = (skipValue bs).map (fun rest => (⟨rest⟩ : ASN1Reader)) :=
  reader_peek_skip fuel bs (read_asn1_header_eq fuel bs hb hf)

/-- `reader.get_remaining_data()` -/
theorem tie_reader_get_remaining_data (bs : Bytes) :
    ASN1Reader_get_remaining_data ⟨bs⟩ = .ok (bs, ⟨[]⟩) := rfl

example : ASN1Reader_bool ⟨[]⟩ = .ok false := by decide
example : ASN1Reader_bool ⟨[0]⟩ = .ok true := by decide
example : ASN1Reader_peek_header 4 ⟨[0x30, 0x81, 0x80]⟩ = .ok (ofHeader ⟨tSeq, 3, 128⟩) := by decide
example : ASN1Reader_skip_value ⟨[4, 1, 7, 9]⟩ (ofHeader ⟨tOctets, 2, 1⟩) = .ok ⟨[9]⟩ := by decide
example : (ASN1Reader_peek_header 5 ⟨[4, 1, 7, 9]⟩ >>= fun h => ASN1Reader_skip_value ⟨[4, 1, 7, 9]⟩ h)
    = .ok ⟨[9]⟩ := by decide
example : ASN1Reader_get_remaining_data ⟨[1, 2]⟩ = .ok ([1, 2], ⟨[]⟩) := by decide

/-- `reader.read_boolean(..)`, every call shape: (value, state afterwards) = the model's (value, remainder) -/
theorem tie_reader_read_boolean (fuel : Nat) (bs : Bytes) (hb : IsBytes bs) (hf : bs.length < fuel)
    (tag : Option ASN1Tag) (header : Option ASN1Header) (e : Option Tag) (hs : Shape bs 1 false tag header e) :
    ASN1Reader_read_boolean fuel ⟨bs⟩ tag header = (readBool e bs).map readerOf :=
  reader_read_boolean_of fuel bs tag header e (read_asn1_boolean_shape fuel bs hb hf tag header e hs)

theorem tie_reader_read_integer (fuel : Nat) (bs : Bytes) (hb : IsBytes bs) (hf : bs.length < fuel)
    (tag : Option ASN1Tag) (header : Option ASN1Header) (e : Option Tag) (hs : Shape bs 2 false tag header e) :
    ASN1Reader_read_integer fuel ⟨bs⟩ tag header = (readInt e bs).map readerOf :=
  reader_read_integer_of fuel bs tag header e (read_asn1_integer_shape fuel bs hb hf tag header e hs)

theorem tie_reader_read_octet_string (fuel : Nat) (bs : Bytes) (hb : IsBytes bs) (hf : bs.length < fuel)
    (tag : Option ASN1Tag) (header : Option ASN1Header) (e : Option Tag) (hs : Shape bs 4 false tag header e) :
    ASN1Reader_read_octet_string fuel ⟨bs⟩ tag header = (readOctets e bs).map readerOf :=
  reader_read_octet_string_of fuel bs tag header e
    (tie_read_asn1_octet_string_shape fuel bs hb hf tag header e hs)

/-- `reader.read_enumerated(enum_type, ..)`: `readInt`, then the caller's `enum_type` on the value
    (its exception, if any, propagates) -/
theorem tie_reader_read_enumerated (fuel : Nat) (bs : Bytes) (enum_type : Int → Except Err Int)
    (hb : IsBytes bs) (hf : bs.length < fuel)
    (tag : Option ASN1Tag) (header : Option ASN1Header) (e : Option Tag) (hs : Shape bs 10 false tag header e) :
    ASN1Reader_read_enumerated fuel ⟨bs⟩ enum_type tag header
      = (readInt e bs >>= fun r => (enum_type r.1).map (fun v => (v, (⟨r.2⟩ : ASN1Reader)))) :=
  reader_read_enumerated_of fuel bs enum_type tag header e
    (read_asn1_enumerated_shape fuel bs hb hf tag header e hs)

/-- `reader.read_sequence(..)`: (reader over the content, state afterwards) -/
theorem tie_reader_read_sequence (fuel : Nat) (bs : Bytes) (hb : IsBytes bs) (hf : bs.length < fuel)
    (tag : Option ASN1Tag) (header : Option ASN1Header) (e : Option Tag) (hs : Shape bs 16 true tag header e) :
    ASN1Reader_read_sequence fuel ⟨bs⟩ tag header = (readTLV e bs).map readerPair :=
  reader_read_sequence_of fuel bs tag header e (tie_read_asn1_sequence_shape fuel bs hb hf tag header e hs)

theorem tie_reader_read_set (fuel : Nat) (bs : Bytes) (hb : IsBytes bs) (hf : bs.length < fuel)
    (tag : Option ASN1Tag) (header : Option ASN1Header) (e : Option Tag) (hs : Shape bs 17 true tag header e) :
    ASN1Reader_read_set fuel ⟨bs⟩ tag header = (readTLV e bs).map readerPair :=
  reader_read_set_of fuel bs tag header e (tie_read_asn1_set_shape fuel bs hb hf tag header e hs)

/-- the state afterwards is `data[consumed:]`: the remainder of every model reader is a suffix of the
    input (with `TiesAsn1More.readTLV_rest`, `readInt_rest`, `readBool_rest`) -/
theorem tie_reader_state_is_drop (fuel : Nat) (bs : Bytes) (hb : IsBytes bs) (hf : bs.length < fuel)
    (tag : Option ASN1Tag) (header : Option ASN1Header) (e : Option Tag) (hs : Shape bs 4 false tag header e)
    (c : Bytes) (r : ASN1Reader)
    (h : ASN1Reader_read_octet_string fuel ⟨bs⟩ tag header = .ok (c, r)) :
    ∃ n : Nat, n ≤ bs.length ∧ r = ⟨bs.drop n⟩ ∧ read_asn1_octet_string fuel bs tag header = .ok (c, (n : Int)) := by
  rw [tie_reader_read_octet_string fuel bs hb hf tag header e hs] at h
  rw [tie_read_asn1_octet_string_shape fuel bs hb hf tag header e hs]
  simp only [readOctets] at h ⊢
  cases hr : readTLV e bs with
  | error err => rw [hr] at h; cases h
  | ok x =>
    obtain ⟨c', rest⟩ := x
    rw [hr] at h
    simp only [Except.map, readerOf] at h
    injection h with h; injection h with h1 h2
    subst h1; subst h2
    have := Proofs.Asn1Gen.readTLV_rest e bs c' rest hr
    exact ⟨bs.length - rest.length, Nat.sub_le _ _, by rw [← this.1], rfl⟩

-- the explicit call shapes, for the most used methods
theorem tie_reader_read_octet_string_tag (fuel : Nat) (bs : Bytes) (t : Tag) (hb : IsBytes bs)
    (hf : bs.length < fuel) :
    ASN1Reader_read_octet_string fuel ⟨bs⟩ (some (ofTag t)) none = (readOctets (some t) bs).map readerOf :=
  tie_reader_read_octet_string fuel bs hb hf _ _ _ (.tag t)

theorem tie_reader_read_octet_string_default (fuel : Nat) (bs : Bytes) (hb : IsBytes bs) (hf : bs.length < fuel) :
    ASN1Reader_read_octet_string fuel ⟨bs⟩ none none = (readOctets (some tOctets) bs).map readerOf :=
  tie_reader_read_octet_string fuel bs hb hf _ _ _ .default

theorem tie_reader_read_sequence_default (fuel : Nat) (bs : Bytes) (hb : IsBytes bs) (hf : bs.length < fuel) :
    ASN1Reader_read_sequence fuel ⟨bs⟩ none none = (readTLV (some tSeq) bs).map readerPair :=
  tie_reader_read_sequence fuel bs hb hf _ _ _ .default

theorem tie_reader_read_sequence_tag (fuel : Nat) (bs : Bytes) (t : Tag) (hb : IsBytes bs)
    (hf : bs.length < fuel) :
    ASN1Reader_read_sequence fuel ⟨bs⟩ (some (ofTag t)) none = (readTLV (some t) bs).map readerPair :=
  tie_reader_read_sequence fuel bs hb hf _ _ _ (.tag t)

theorem tie_reader_read_integer_default (fuel : Nat) (bs : Bytes) (hb : IsBytes bs) (hf : bs.length < fuel) :
    ASN1Reader_read_integer fuel ⟨bs⟩ none none = (readInt (some tInt) bs).map readerOf :=
  tie_reader_read_integer fuel bs hb hf _ _ _ .default

theorem tie_reader_read_boolean_default (fuel : Nat) (bs : Bytes) (hb : IsBytes bs) (hf : bs.length < fuel) :
    ASN1Reader_read_boolean fuel ⟨bs⟩ none none = (readBool (some tBool) bs).map readerOf :=
  tie_reader_read_boolean fuel bs hb hf _ _ _ .default

/-- `read_enumerated(ResultCode)`-style call: `enum_type = enumOf members` -/
theorem tie_reader_read_enumerated_default (fuel : Nat) (bs : Bytes) (members : List Int)
    (hb : IsBytes bs) (hf : bs.length < fuel) :
    ASN1Reader_read_enumerated fuel ⟨bs⟩ (enumOf members) none none
      = (readInt (some tEnum) bs >>= fun r => (enumOf members r.1).map (fun v => (v, (⟨r.2⟩ : ASN1Reader)))) :=
  tie_reader_read_enumerated fuel bs _ hb hf _ _ _ .default

/-- the class attributes `read_set_of = read_set`, `read_sequence_of = read_sequence` -/
theorem tie_reader_aliases :
    @ASN1Reader_read_set_of = @ASN1Reader_read_set ∧ @ASN1Reader_read_sequence_of = @ASN1Reader_read_sequence :=
  ⟨rfl, rfl⟩

example : ASN1Reader_read_boolean 6 ⟨[1, 1, 0, 9]⟩ none none = .ok (false, ⟨[9]⟩) := by decide
example : ASN1Reader_read_integer 6 ⟨[2, 2, 0xFF, 0x7F, 9]⟩ none none = .ok (-129, ⟨[9]⟩) := by decide
example : ASN1Reader_read_integer 6 ⟨[2, 0]⟩ none none = .error .valueError := by decide
example : ASN1Reader_read_octet_string 6 ⟨[4, 2, 7, 8, 9]⟩ none none = .ok ([7, 8], ⟨[9]⟩) := by decide
example : ASN1Reader_read_octet_string 6 ⟨[4, 2, 7]⟩ none none = .error .notEnough := by decide
example : ASN1Reader_read_enumerated 6 ⟨[10, 1, 2, 9]⟩ (enumOf [0, 1, 2]) none none = .ok (2, ⟨[9]⟩) := by decide
example : ASN1Reader_read_enumerated 6 ⟨[10, 1, 5, 9]⟩ (enumOf [0, 1, 2]) none none = .error .valueError := by
  decide
example : ASN1Reader_read_sequence 6 ⟨[0x30, 3, 2, 1, 5, 9]⟩ none none = .ok (⟨[2, 1, 5]⟩, ⟨[9]⟩) := by decide
example : ASN1Reader_read_set_of 6 ⟨[0x31, 1, 5]⟩ none none = .ok (⟨[5]⟩, ⟨[]⟩) := by decide
example : ASN1Reader_read_sequence 0 ⟨[0x30, 1, 5]⟩ none (some (ofHeader ⟨tSeq, 2, 1⟩)) = .ok (⟨[5]⟩, ⟨[]⟩) := by
  decide

/-! ## 3. `ASN1Writer` -/

/-- `ASN1Writer()` (root writer) -/
theorem tie_writer_init (tag : Option ASN1Tag) (parent : Option ASN1Writer) :
    ASN1Writer_init tag parent = .ok ⟨[], tag, parent⟩ := rfl

theorem tie_writer_write_integer (fuel : Nat) (w : ASN1Writer) (v : Int) (t : Tag) (hc : t.cls ≤ 3)
    (hnum : t.num < 31 ∨ (packOctetNumber t.num).length < fuel)
    (hv : (intContent v).length ≤ fuel) (hlen : (intContent v).length < 256 ^ 127) :
    ASN1Writer_write_integer fuel w v (some (ofTag t)) = .ok { w with data := w.data ++ packInt v t } :=
  writer_extend w _ _ (pack_asn1_integer_sz fuel v t hc hnum hv hlen)

theorem tie_writer_write_integer_default (fuel : Nat) (w : ASN1Writer) (v : Int)
    (hv : (intContent v).length ≤ fuel) (hlen : (intContent v).length < 256 ^ 127) :
    ASN1Writer_write_integer fuel w v none = .ok { w with data := w.data ++ packInt v } :=
  writer_extend w _ _ (pack_asn1_integer_default_sz fuel v hv hlen)

theorem tie_writer_write_enumerated (fuel : Nat) (w : ASN1Writer) (v : Int) (t : Tag) (hc : t.cls ≤ 3)
    (hnum : t.num < 31 ∨ (packOctetNumber t.num).length < fuel)
    (hv : (intContent v).length ≤ fuel) (hlen : (intContent v).length < 256 ^ 127) :
    ASN1Writer_write_enumerated fuel w v (some (ofTag t)) = .ok { w with data := w.data ++ packEnum v t } :=
  writer_extend w _ _ (pack_asn1_enumerated_sz fuel v t hc hnum hv hlen)

theorem tie_writer_write_enumerated_default (fuel : Nat) (w : ASN1Writer) (v : Int)
    (hv : (intContent v).length ≤ fuel) (hlen : (intContent v).length < 256 ^ 127) :
    ASN1Writer_write_enumerated fuel w v none = .ok { w with data := w.data ++ packEnum v } :=
  writer_extend w _ _ (pack_asn1_enumerated_default_sz fuel v hv hlen)

theorem tie_writer_write_boolean (fuel : Nat) (w : ASN1Writer) (b : Bool) (t : Tag) (hc : t.cls ≤ 3)
    (hnum : t.num < 31 ∨ (packOctetNumber t.num).length < fuel) :
    ASN1Writer_write_boolean fuel w b (some (ofTag t)) = .ok { w with data := w.data ++ packBool b t } :=
  writer_extend w _ _ (tie_pack_asn1_boolean_sz fuel b t hc hnum)

/-- for every fuel -/
theorem tie_writer_write_boolean_default (fuel : Nat) (w : ASN1Writer) (b : Bool) :
    ASN1Writer_write_boolean fuel w b none = .ok { w with data := w.data ++ packBool b } :=
  writer_extend w _ _ (tie_pack_asn1_boolean_default_sz fuel b)

theorem tie_writer_write_octet_string (fuel : Nat) (w : ASN1Writer) (c : Bytes) (t : Tag) (hc : t.cls ≤ 3)
    (hnum : t.num < 31 ∨ (packOctetNumber t.num).length < fuel)
    (hlenf : c.length < 128 ∨ (packLen c.length).length ≤ fuel) (hlen : c.length < 256 ^ 127) :
    ASN1Writer_write_octet_string fuel w c (some (ofTag t)) = .ok { w with data := w.data ++ packOctets c t } :=
  writer_extend w _ _ (pack_asn1_octet_string_sz fuel c t hc hnum hlenf hlen)

theorem tie_writer_write_octet_string_default (fuel : Nat) (w : ASN1Writer) (c : Bytes)
    (hlenf : c.length < 128 ∨ (packLen c.length).length ≤ fuel) (hlen : c.length < 256 ^ 127) :
    ASN1Writer_write_octet_string fuel w c none = .ok { w with data := w.data ++ packOctets c } :=
  writer_extend w _ _ (pack_asn1_octet_string_default_sz fuel c hlenf hlen)

/-- `writer.get_data()` on a root writer; on a child (a tag or a parent is set) TypeError, which the
    runtime classes as "any other exception" (`Err.notImpl`) -/
theorem tie_writer_get_data (buf : Bytes) : ASN1Writer_get_data ⟨buf, none, none⟩ = .ok buf := rfl

theorem tie_writer_get_data_child (w : ASN1Writer) (h : w.tag.isSome ∨ w.parent.isSome) :
    ASN1Writer_get_data w = .error .notImpl := by
  obtain ⟨d, tg, p⟩ := w
  cases tg <;> cases p <;> simp_all [ASN1Writer_get_data]

/-- `writer.push_sequence(tag)` / `push_set(tag)`: a fresh child that refers to `w`; `w` itself is unchanged
    (the methods return no state) -/
theorem tie_writer_push_sequence (w : ASN1Writer) (t : Tag) :
    ASN1Writer_push_sequence w (some (ofTag t)) = .ok ⟨[], some (ofTag t), some w⟩ := rfl

theorem tie_writer_push_sequence_default (w : ASN1Writer) :
    ASN1Writer_push_sequence w none = .ok ⟨[], some (ofTag tSeq), some w⟩ := rfl

theorem tie_writer_push_set (w : ASN1Writer) (t : Tag) :
    ASN1Writer_push_set w (some (ofTag t)) = .ok ⟨[], some (ofTag t), some w⟩ := rfl

theorem tie_writer_push_set_default (w : ASN1Writer) :
    ASN1Writer_push_set w none = .ok ⟨[], some (ofTag tSet), some w⟩ := rfl

theorem tie_writer_enter (w : ASN1Writer) : ASN1Writer_enter w = .ok w := rfl

/-- `child.__exit__(..)`: the child's buffer, wrapped in its tag, is appended to the parent's buffer -/
theorem tie_writer_exit (fuel : Nat) (child : Bytes) (t : Tag) (p : ASN1Writer) (hc : t.cls ≤ 3)
    (hnum : t.num < 31 ∨ (packOctetNumber t.num).length < fuel)
    (hlenf : child.length < 128 ∨ (packLen child.length).length ≤ fuel) (hlen : child.length < 256 ^ 127) :
    ASN1Writer_exit fuel ⟨child, some (ofTag t), some p⟩
      = .ok ⟨child, some (ofTag t), some { p with data := p.data ++ packTLV t child }⟩ :=
  writer_exit_eq fuel child t p hc hnum hlenf hlen

/-- `__exit__` of a writer without parent or without tag does nothing -/
theorem tie_writer_exit_root (fuel : Nat) (w : ASN1Writer) (h : w.tag = none ∨ w.parent = none) :
    ASN1Writer_exit fuel w = .ok w := by
  obtain ⟨d, tg, p⟩ := w
  cases tg <;> cases p <;> simp_all [ASN1Writer_exit]

/-- `with w.push_sequence(tag) as c: BODY` where BODY leaves the child with buffer `child` (and does not
    touch its tag / parent): `w`'s buffer gains `packTLV t child` -/
theorem tie_writer_with_push_sequence (fuel : Nat) (w : ASN1Writer) (t : Tag) (child : Bytes)
    (body : ASN1Writer → Except Err ASN1Writer)
    (hbody : body ⟨[], some (ofTag t), some w⟩ = .ok ⟨child, some (ofTag t), some w⟩)
    (hc : t.cls ≤ 3) (hnum : t.num < 31 ∨ (packOctetNumber t.num).length < fuel)
    (hlenf : child.length < 128 ∨ (packLen child.length).length ≤ fuel) (hlen : child.length < 256 ^ 127) :
    ASN1Writer_with_push_sequence fuel w (some (ofTag t)) body
      = .ok { w with data := w.data ++ packTLV t child } :=
  writer_with_of fuel w t child _ body rfl hbody hc hnum hlenf hlen

theorem tie_writer_with_push_sequence_default (fuel : Nat) (w : ASN1Writer) (child : Bytes)
    (body : ASN1Writer → Except Err ASN1Writer)
    (hbody : body ⟨[], some (ofTag tSeq), some w⟩ = .ok ⟨child, some (ofTag tSeq), some w⟩)
    (hlenf : child.length < 128 ∨ (packLen child.length).length ≤ fuel) (hlen : child.length < 256 ^ 127) :
    ASN1Writer_with_push_sequence fuel w none body = .ok { w with data := w.data ++ packTLV tSeq child } :=
  writer_with_of fuel w tSeq child _ body rfl hbody (by simp [tSeq, tagUniv]) (Or.inl (by simp [tSeq, tagUniv]))
    hlenf hlen

theorem tie_writer_with_push_set (fuel : Nat) (w : ASN1Writer) (t : Tag) (child : Bytes)
    (body : ASN1Writer → Except Err ASN1Writer)
    (hbody : body ⟨[], some (ofTag t), some w⟩ = .ok ⟨child, some (ofTag t), some w⟩)
    (hc : t.cls ≤ 3) (hnum : t.num < 31 ∨ (packOctetNumber t.num).length < fuel)
    (hlenf : child.length < 128 ∨ (packLen child.length).length ≤ fuel) (hlen : child.length < 256 ^ 127) :
    ASN1Writer_with_push_set fuel w (some (ofTag t)) body
      = .ok { w with data := w.data ++ packTLV t child } :=
  writer_with_of fuel w t child _ body rfl hbody hc hnum hlenf hlen

theorem tie_writer_with_push_set_default (fuel : Nat) (w : ASN1Writer) (child : Bytes)
    (body : ASN1Writer → Except Err ASN1Writer)
    (hbody : body ⟨[], some (ofTag tSet), some w⟩ = .ok ⟨child, some (ofTag tSet), some w⟩)
    (hlenf : child.length < 128 ∨ (packLen child.length).length ≤ fuel) (hlen : child.length < 256 ^ 127) :
    ASN1Writer_with_push_set fuel w none body = .ok { w with data := w.data ++ packTLV tSet child } :=
  writer_with_of fuel w tSet child _ body rfl hbody (by simp [tSet, tagUniv]) (Or.inl (by simp [tSet, tagUniv]))
    hlenf hlen

/-- an exception in BODY propagates -/
theorem tie_writer_with_push_sequence_error (fuel : Nat) (w : ASN1Writer) (tag : Option ASN1Tag)
    (body : ASN1Writer → Except Err ASN1Writer) (err : Err) (hbody : ∀ c, body c = .error err) :
    ASN1Writer_with_push_sequence fuel w tag body = .error err := by
  cases tag <;>
    simp [ASN1Writer_with_push_sequence, ASN1Writer_push_sequence, ASN1Writer_init, ASN1Writer_enter,
      ASN1Tag_universal_tag, hbody]

/-- the class attributes `push_sequence_of = push_sequence`, `push_set_of = push_set` -/
theorem tie_writer_aliases :
    @ASN1Writer_push_sequence_of = @ASN1Writer_push_sequence ∧ @ASN1Writer_push_set_of = @ASN1Writer_push_set
      ∧ @ASN1Writer_with_push_sequence_of = @ASN1Writer_with_push_sequence
      ∧ @ASN1Writer_with_push_set_of = @ASN1Writer_with_push_set :=
  ⟨rfl, rfl, rfl, rfl⟩

example : ASN1Writer_write_integer 2 ⟨[9], none, none⟩ (-129) none = .ok ⟨[9, 2, 2, 0xFF, 0x7F], none, none⟩ := rfl
example : ASN1Writer_write_enumerated 1 ⟨[], none, none⟩ 3 none = .ok ⟨[10, 1, 3], none, none⟩ := rfl
example : ASN1Writer_write_boolean 0 ⟨[9], none, none⟩ true none = .ok ⟨[9, 1, 1, 255], none, none⟩ := rfl
example : ASN1Writer_write_octet_string 0 ⟨[9], none, none⟩ [7, 8] (some (ofTag (tagCtx 0)))
    = .ok ⟨[9, 0x80, 2, 7, 8], none, none⟩ := rfl
example : ASN1Writer_get_data ⟨[1, 2], none, none⟩ = .ok [1, 2] := by decide
example : ASN1Writer_get_data ⟨[1, 2], some (ofTag tSeq), none⟩ = .error .notImpl := by decide
example : ASN1Writer_exit 0 ⟨[7], some (ofTag tSeq), some ⟨[9], none, none⟩⟩
    = .ok ⟨[7], some (ofTag tSeq), some ⟨[9, 0x30, 1, 7], none, none⟩⟩ := rfl
-- `with w.push_sequence() as c: c.write_integer(5); c.write_boolean(True)` on a writer holding [9]
example : (ASN1Writer_with_push_sequence 1 ⟨[9], none, none⟩ none (fun c => do
      let c ← ASN1Writer_write_integer 1 c 5 none
      ASN1Writer_write_boolean 1 c true none)).map (·.data) = .ok [9, 0x30, 6, 2, 1, 5, 1, 1, 255] := by decide
-- nested: `with w.push_sequence() as c: with c.push_set_of(ctx 3) as d: d.write_octet_string(b"\x07")`
example : (ASN1Writer_with_push_sequence 1 ⟨[], none, none⟩ none (fun c =>
      ASN1Writer_with_push_set_of 1 c (some (ofTag (tagCtx 3 true))) (fun d =>
        ASN1Writer_write_octet_string 1 d [7] none))).map (·.data) = .ok [0x30, 5, 0xA3, 3, 4, 1, 7] := by decide

end Verif.TiesAsn1
