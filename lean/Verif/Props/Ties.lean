/-
Ties between hand-written scanners of the model and the regular expressions the library
actually compiles (regenerated into `Generated/Regexes.lean` by the translator on every run).

These are not properties of the list: they make the hand-modelled parts that stand for a
`re` call *provably* equal to the translated pattern, so that a change to one of these
patterns in the library breaks a proof obligation of every property that relies on the
scanner (C13, C14, C15 for the filter patterns; C16, C17 for the qdstring patterns).
-/
import Verif.Model.FilterText
import Verif.Model.Schema
import Verif.Generated.Regexes
import Verif.Generated.Facts
import Verif.Proofs.ReTies

namespace Verif.Ties
open Verif

/-- the attribute scanner accepts exactly the strings `_ATTRIBUTE_PATTERN.match` accepts
    (the pattern is anchored at both ends) — for every list of code points -/
theorem validAttr_eq_pattern (a : List Nat) : validAttr a = Re.accepts Regexes.filter_ATTRIBUTE_PATTERN a :=
  Proofs.validAttr_eq_pattern a

/-- the hex test of `unescape` is `_HEX_PATTERN` on two characters -/
theorem hex_eq_pattern (h1 h2 : Nat) : (isHex h1 && isHex h2) = Re.accepts Regexes.filter_HEX_PATTERN [h1, h2] :=
  Proofs.hex_eq_pattern h1 h2

/-- `_LDAP_ESCAPE_PATTERN` at a backslash takes the backslash and up to two following bytes,
    none of them a newline — what `unescape` assumes -/
theorem ldap_escape_match (r : List Nat) (hb : ∀ c ∈ r, c < 256) :
    Re.matchLen Regexes.filter_LDAP_ESCAPE_PATTERN (92 :: r) = some (1 + min 2 ((r.takeWhile (· != 10)).length)) :=
  Proofs.ldap_escape_match r hb

/-- the byte class of `_STRING_ESCAPE_PATTERN` is the table `escapeValue` uses -/
theorem string_escape_class (b : Nat) (hb : b < 256) :
    Re.accepts Regexes.filter_STRING_ESCAPE_PATTERN [b] = Facts.escapedBytes.contains b :=
  Proofs.string_escape_class b hb

/-- the class `_encode_qdstring` escapes is exactly quote and backslash -/
theorem encode_qdstring_class : Regexes.schema_encode_qdstring = .cls [(39, 39), (92, 92)] := by rfl

/-- the pattern `_parse_qdstring` substitutes is exactly `\5[Cc]` or `\27`
    (CPython's `sre_parse` factors the common leading backslash out of the alternation, so the
    translated term is `\(?:5[Cc]|27)`) -/
theorem parse_qdstring_pattern :
    Regexes.schema_parse_qdstring =
      .cat (.cls [(92, 92)])
        (.alt (.cat (.cls [(53, 53)]) (.cls [(67, 67), (99, 99)]))
              (.cat (.cls [(50, 50)]) (.cls [(55, 55)]))) := by rfl

end Verif.Ties
