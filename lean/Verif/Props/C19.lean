/-
C19 — sessions are isolated; custom types take effect per session only.

In the model sessions are values, so isolation holds by construction; the theorem pins the
statement (and keeps it true if the model ever grows shared state).  That the Python objects
share no mutable state is decided by the harness (interleaved live sessions vs fresh
interpreters vs this model).
-/
import Verif.Spec.Isolation
import Verif.Proofs.RoundTrip
import Verif.Proofs.Isolation

namespace Verif.C19
open Verif Verif.Isolation

/-- one step on session `i` leaves every other session untouched -/
theorem step_frame (f : Family) (i j : Nat) (c : Call) (h : j ≠ i) : (stepAt f i c).1 j = f j := by
  simp [stepAt, h]

/-- running any interleaving of any number of sessions' call sequences gives each session the
    same final state and the same results, errors and bytes as running its calls alone -/
theorem isolation (f : Family) (w : List (Nat × Call)) (i : Nat) :
    (runAll f w).1 i = (run (f i) (proj i w)).1 ∧ proj i (runAll f w).2 = (run (f i) (proj i w)).2 := by
  induction w generalizing f with
  | nil => simp [runAll, proj, run]
  | cons x w ih =>
    obtain ⟨k, c⟩ := x
    simp only [runAll]
    by_cases hk : k = i
    · subst hk
      have := ih (stepAt f k c).1
      simp only [proj, List.filter_cons, beq_self_eq_true, ↓reduceIte, List.map_cons, run] at this ⊢
      have h1 : (stepAt f k c).1 k = (step (f k) c).1 := by simp [stepAt]
      have h2 : (stepAt f k c).2 = (step (f k) c).2 := by simp [stepAt]
      rw [h1] at this
      constructor
      · exact this.1
      · simp only [h2]; rw [this.2]
    · have := ih (stepAt f k c).1
      have hne : (k == i) = false := by simpa using hk
      have hf : (stepAt f k c).1 i = f i := step_frame f k i c (fun h => hk h.symm)
      simp only [proj, List.filter_cons, hne, Bool.false_eq_true, ↓reduceIte] at this ⊢
      rw [hf] at this
      exact this

/-- registering a custom type twice is rejected with ValueError and changes nothing -/
theorem duplicate_registration_rejected (s : Sess) (k : RegKind) :
    (step (step s (.register k)).1 (.register k)).2 = .valueError ∧
      (step (step s (.register k)).1 (.register k)).1 = (step s (.register k)).1 := by
  cases k <;> simp only [step] <;> split <;> simp_all

/-- a registration changes only the session's own registry (no protocol state, no bytes) -/
theorem registration_local (s : Sess) (k : RegKind) :
    (step s (.register k)).1 = { s with regs := (step s (.register k)).1.regs } := by
  cases k <;> simp only [step] <;> split <;> simp_all

/-- a session that registered the custom types decodes a message using them (C01 instance) -/
theorem registered_decodes (regs : Regs) (m : Msg) (depth : Nat) (h : m.WF regs) (hd : m.op.filterDepth < depth) :
    decMsg regs depth (encMsg m) = .ok (fillRaw m, []) := by
  simpa using Proofs.decMsg_encMsg regs m [] depth h hd

/-- without the registration the same bytes are an unknown type: an unknown filter / credential
    choice (NotImplementedError → protocol error), an ordinary control with that OID -/
theorem unregistered_filter_unknown (v : Bytes) (rest : Bytes) (depth : Nat) :
    decFilter {} (depth + 1) (encFilter (.custom v) ++ rest) = .error .notImpl :=
  Proofs.decFilter_custom_unregistered v rest depth

theorem unregistered_cred_unknown (v : Bytes) (rest : Bytes) :
    decCred {} (encCred (.custom v) ++ rest) = .error .notImpl :=
  Proofs.decCred_custom_unregistered v rest

theorem unregistered_control_generic (crit : Bool) (data : Bytes) (raw : Option Bytes) (rest : Bytes) :
    decControl {} (encControl (.custom crit data raw) ++ rest)
      = .ok (.generic Facts.oidCustomControl crit (some (Facts.customControlMagic ++ data)), rest) :=
  Proofs.decControl_custom_unregistered crit data raw rest

/-! non-vacuity: two interleaved sessions, one of which registers a type -/
example :
    let f : Family := fun i => if i = 0 then Sess.init .client else Sess.init .server
    let w : List (Nat × Call) := [(0, .extended [49] none []), (1, .register .filter), (0, .drain none), (1, .register .filter)]
    proj 1 (runAll f w).2 = (run (Sess.init .server) [.register .filter, .register .filter]).2 := by
  intro f w
  exact (isolation f w 1).2

end Verif.C19
