/-
C12 — outgoing bytes are delivered exactly once, in order, however they are drained.
-/
import Verif.Spec.SessionSpec
import Verif.Proofs.Session

namespace Verif.C12
open Verif

/-- over any history of sends, drains (any amounts, negative included), deliveries and
    registrations, from any starting session:
    everything drained so far ++ what is still pending = what was pending at the start ++
    the encodings of exactly the accepted sends, in call order -/
theorem queue (s : Sess) (cs : List Call) :
    (totals s cs).1 ++ (run s cs).1.out = s.out ++ (totals s cs).2 :=
  Proofs.totals_queue s cs

/-- a drain returns a prefix of the pending bytes, keeps the remainder, and changes nothing
    else in the session -/
theorem drain_step (s : Sess) (a : Option Int) :
    ∃ b, (step s (.drain a)).2 = .bytes b ∧ b ++ (step s (.drain a)).1.out = s.out ∧
      (step s (.drain a)).1 = { s with out := (step s (.drain a)).1.out } :=
  Proofs.drain_step s a

/-- `data_to_send()` with no amount, or an amount at least the pending size, returns everything -/
theorem drain_all (s : Sess) (a : Option Int)
    (h : a = none ∨ ∃ n : Int, a = some n ∧ (s.out.length : Int) ≤ n) :
    (step s (.drain a)).2 = .bytes s.out ∧ (step s (.drain a)).1.out = [] :=
  Proofs.drain_all s a h

/-- no call other than an accepted send ever adds to the pending bytes, and none reorders
    or drops them: after any step the old pending bytes minus what was drained are a prefix -/
theorem step_fifo (s : Sess) (c : Call) :
    drainedOf (step s c).2 ++ (step s c).1.out = s.out ++ sentOf s c (step s c).2 :=
  Proofs.step_fifo s c

/-! non-vacuity -/
example : (totals (Sess.init .client) [.extended [49] none [], .drain (some 3), .unbind, .drain (some (-2)), .drain none]).1
    = encMsg ⟨1, .extReq [49] none, []⟩ ++ encMsg ⟨0, .unbind, []⟩ := by decide

end Verif.C12
