/-
C05 — receiving arbitrary bytes either yields messages or fails closed.
-/
import Verif.Spec.Frame
import Verif.Spec.Rfc4511
import Verif.Spec.WF
import Verif.Proofs.Recv
import Verif.Proofs.RecvNotice

namespace Verif.C05
open Verif

/-- For any bytes whatsoever, any recursion budget and any reachable session, `receive`
    returns messages or raises the protocol error — the model has no other outcome on this
    path (in particular the KeyError site of the client's bookkeeping is unreachable). -/
theorem messages_or_protocol_error (depth : Nat) (s : Sess) (chunk : Bytes) (hr : Reachable s) :
    (∃ ms, (recv depth s chunk).2 = .msgs ms) ∨ (∃ n, (recv depth s chunk).2 = .protocolError n) :=
  Proofs.recv_total depth s chunk hr

/-- after a protocol error the session reports CLOSED … -/
theorem error_closes (depth : Nat) (s : Sess) (chunk : Bytes) (n : Notification)
    (h : (recv depth s chunk).2 = .protocolError n) : (recv depth s chunk).1.state = .closed :=
  Proofs.recv_error_closes depth s chunk n h

/-- … and refuses all further input (nothing is buffered, the state stays CLOSED) -/
theorem closed_refuses (depth : Nat) (s : Sess) (chunk : Bytes) (h : s.state = .closed) :
    (∃ n, (recv depth s chunk).2 = .protocolError n) ∧ (recv depth s chunk).1 = s :=
  Proofs.recv_closed depth s chunk h

/-- which notification is attached: a server always attaches a notice of disconnection and a
    client an unbind, except when the error reports the peer's own unbind (or, for a client,
    the peer's notice of disconnection) -/
theorem notification_kind (depth : Nat) (s : Sess) (chunk : Bytes) (n : Notification)
    (h : (recv depth s chunk).2 = .protocolError n) :
    (s.role = .server → n = .notice ∨ n = .none) ∧ (s.role = .client → n = .unbind ∨ n = .none) :=
  Proofs.recv_notification depth s chunk n h

/-- the notice of disconnection a server attaches is, for every diagnostic text, a
    well-formed RFC 4511 ExtendedResponse with message id 0, result protocolError and the
    notice-of-disconnection OID: the independent strict decoder reads it back -/
theorem notice_well_formed (diag : Bytes) (hd : IsText diag) (hs : (encMsg (noticeMsg diag)).length < 256 ^ 126) :
    Rfc.decode (encMsg (noticeMsg diag)) = some (noticeMsg diag) :=
  Proofs.notice_strict_decodes diag hd hs

/-- the unbind a client attaches: the library's own decoder reads it back as UnbindRequest
    with message id 0; the strict decoder accepts it once the constructed bit of the
    protocolOp identifier is cleared (known finding F-C03 / F-C05u) -/
theorem unbind_notification :
    decMsg {} 1 (encMsg unbindMsg) = .ok (unbindMsg, []) ∧
      encMsg unbindMsg = [48, 5, 2, 1, 0, 98, 0] ∧ Rfc.decode [48, 5, 2, 1, 0, 66, 0] = some unbindMsg := by
  refine ⟨by rfl, by rfl, by rfl⟩

/-! non-vacuity: former defect witnesses now fail closed -/
example : (recv 10 (Sess.init .server) [48, 4, 2, 0, 66, 0]).2 = .protocolError .notice := by rfl
-- (`FF FF` alone is an *incomplete* high-tag-number identifier — `receive` waits for more
--  bytes and returns `[]`; the garbage below has a complete header that is not a SEQUENCE)
example : (recv 10 (Sess.init .client) [255, 255, 0, 0]).1.state = .closed := by rfl
example : (recv 10 (Sess.init .client) [255, 255]).2 = .msgs [] := by rfl

end Verif.C05
