/-
Bridge between the abstraction of the states a real (generated) session goes through and the `Reachable`
sessions of the model, about which C08 / C09 / C10 / C12 are proved (audit 3, item S1).

The gap: `absS .server regs LDAPServer_new` has `counter = 0` (a Python `LDAPServer` has no message counter),
the model's `Sess.init .server` has `counter = 1`, and `Reachable` starts from `Sess.init`; so the abstraction
of a server state is never literally `Reachable` (`fresh_server_not_init`).  The client has no gap
(`fresh_client`).

What is proved here (proofs: `Verif/Proofs/SessionGenBridge.lean`, `SessionGenBridgeRun.lean`):
  1. a server never reads or writes `counter`: `step` (every `Call`, `receive` included), `serverSend`,
     `serverProcess`, `recv`, `run`, and the ghost observations `events` / `historyEvents` / `totals` commute with
     overwriting it (`setCounter k`);
  2. every history from a fresh `LDAPServer` has the outcomes of the same history from `Sess.init .server`
     and ends in the same session except for `counter`; fresh sessions with registered types are `Reachable`;
  3. `GenReachable` (model sessions reachable from the abstraction of a fresh generated session) is exactly
     `Reachable` up to the server's counter (`bridge`, `bridge_conv`); `GenSt r regs st` (field records reached
     by the generated public methods from `LDAPClient_new` / `LDAPServer_new`, through the step ties of
     `TiesSession.lean`) abstracts into it (`genSt_abs`); transfer principles (`transfer_state`, `transfer_run`,
     `transfer_step`) and the headline theorems of C08, C09, C10, C12 restated for `absS r regs st`.
Axioms: propext, Classical.choice, Quot.sound.
-/
import Verif.Props.TiesSession
import Verif.Proofs.SessionGenBridgeRun
import Verif.Props.C08
import Verif.Props.C09
import Verif.Props.C10
import Verif.Props.C12

namespace Verif.TiesSessionBridge

open Verif Verif.PyRtS Verif.SessionGen Verif.Proofs.SessionGen Verif.Proofs.SessionGenBridge

/-! ### 1. the server role never reads or writes `counter` -/

theorem server_step_counter (k : Int) (s : Sess) (c : Call) (hr : s.role = .server) :
    step { s with counter := k } c = ({ (step s c).1 with counter := k }, (step s c).2) :=
  step_counter k s c hr

theorem server_step_keeps_counter (s : Sess) (c : Call) (hr : s.role = .server) :
    (step s c).1.counter = s.counter :=
  step_counter_unchanged s c hr

theorem server_recv_counter (k : Int) (d : Nat) (s : Sess) (chunk : Bytes) (hr : s.role = .server) :
    recv d { s with counter := k } chunk = ({ (recv d s chunk).1 with counter := k }, (recv d s chunk).2) :=
  recv_counter k d s chunk hr

/-- `sendBase` / `serverSend` (any role) and `serverProcess` -/
theorem sendBase_counter (k : Int) (s : Sess) (m : Msg) :
    sendBase { s with counter := k } m = ({ (sendBase s m).1 with counter := k }, (sendBase s m).2) :=
  Proofs.SessionGenBridge.sendBase_counter k s m

theorem serverSend_counter (k : Int) (s : Sess) (m : Msg) :
    serverSend { s with counter := k } m = ({ (serverSend s m).1 with counter := k }, (serverSend s m).2) :=
  Proofs.SessionGenBridge.serverSend_counter k s m

theorem serverProcess_counter (k : Int) (s : Sess) (m : Msg) :
    serverProcess { s with counter := k } m = (serverProcess s m).map (fun s' => { s' with counter := k }) :=
  Proofs.SessionGenBridge.serverProcess_counter k s m

theorem server_run_counter (k : Int) (s : Sess) (cs : List Call) (hr : s.role = .server) :
    run { s with counter := k } cs = ({ (run s cs).1 with counter := k }, (run s cs).2) :=
  run_counter k cs s hr

/-- the ghost observations the properties are stated over -/
theorem server_events_counter (k : Int) (s : Sess) (c : Call) (hr : s.role = .server) :
    events { s with counter := k } c (step s c).2 = events s c (step s c).2 :=
  events_counter k s c hr

theorem server_historyEvents_counter (k : Int) (s : Sess) (cs : List Call) (hr : s.role = .server) :
    historyEvents { s with counter := k } cs = historyEvents s cs :=
  historyEvents_counter k cs s hr

theorem server_totals_counter (k : Int) (s : Sess) (cs : List Call) (hr : s.role = .server) :
    totals { s with counter := k } cs = totals s cs :=
  totals_counter k cs s hr

/-- the client side is different: its counter is read (it is the id of the next request) -/
example : (step { Sess.init .client with counter := 7 } (.extended [49] none [])).2.accepted = true ∧
    (match (step { Sess.init .client with counter := 7 } (.extended [49] none [])).2 with | .sent i => i | _ => 0) = 7 := by
  decide

/-! ### 2. fresh sessions and whole histories -/

/-- the client needs no bridge -/
theorem fresh_client (regs : Regs) : absS .client regs LDAPClient_new = { Sess.init .client with regs := regs } := rfl

theorem fresh_client_init : absS .client {} LDAPClient_new = Sess.init .client := rfl

theorem fresh_client_reachable (regs : Regs) : Reachable (absS .client regs LDAPClient_new) :=
  Proofs.SessionGenBridge.fresh_client_reachable regs

/-- the server: equal to the model's initial server up to `counter`, and not equal to it -/
theorem fresh_server (regs : Regs) :
    absS .server regs LDAPServer_new = { ({ Sess.init .server with regs := regs } : Sess) with counter := 0 } := rfl

theorem fresh_server_not_init (regs : Regs) :
    absS .server regs LDAPServer_new ≠ { Sess.init .server with regs := regs } :=
  fresh_server_ne regs

/-- fresh model sessions with any custom types registered are `Reachable` (by the `register` calls) -/
theorem init_with_regs_reachable (r : Role) (regs : Regs) : Reachable { Sess.init r with regs := regs } :=
  init_regs_reachable r regs

/-- every history from a fresh `LDAPServer`: the outcomes of the same history from the model's initial
    server, the same final session except for `counter` -/
theorem run_fresh_server (regs : Regs) (cs : List Call) :
    run (absS .server regs LDAPServer_new) cs
      = ({ (run { Sess.init .server with regs := regs } cs).1 with counter := 0 },
         (run { Sess.init .server with regs := regs } cs).2) :=
  Proofs.SessionGenBridge.run_fresh_server regs cs

theorem run_fresh_client (regs : Regs) (cs : List Call) :
    run (absS .client regs LDAPClient_new) cs = run { Sess.init .client with regs := regs } cs := rfl

theorem run_fresh_server_reachable (regs : Regs) (cs : List Call) :
    Reachable (run { Sess.init .server with regs := regs } cs).1 :=
  run_reachable cs _ (init_regs_reachable .server regs)

example : (run (absS .server {} LDAPServer_new) [.receive [48, 8, 2, 1, 1, 119, 3, 128, 1, 49]]).1.outstanding = [1] ∧
    (run (absS .server {} LDAPServer_new) [.receive [48, 8, 2, 1, 1, 119, 3, 128, 1, 49]]).1.counter = 0 ∧
    (run (Sess.init .server) [.receive [48, 8, 2, 1, 1, 119, 3, 128, 1, 49]]).1.counter = 1 := by decide

/-! ### 3. reachability from a fresh generated session -/

/-- `GenReachable s`: `s` is reached by model steps from `absS .client regs LDAPClient_new` or
    `absS .server regs LDAPServer_new` -/
abbrev GenReachable := Proofs.SessionGenBridge.GenReachable

/-- a `GenReachable` client is `Reachable`; a `GenReachable` server is a `Reachable` server whose counter
    has been overwritten by 0 -/
theorem bridge {s : Sess} (h : GenReachable s) :
    (s.role = .client ∧ Reachable s) ∨
      (s.role = .server ∧ ∃ s', Reachable s' ∧ s = { s' with counter := 0 }) :=
  genReachable_bridge h

theorem bridge_conv {s : Sess} (h : Reachable s) :
    GenReachable (match s.role with | .client => s | .server => { s with counter := 0 }) :=
  reachable_genReachable h

/-- field records reached by the generated public methods (each through its step tie) -/
inductive GenSt (r : Role) (regs : Regs) : St → Prop where
  | new_client : r = .client → GenSt r regs LDAPClient_new
  | new_server : r = .server → GenSt r regs LDAPServer_new
  | call {α : Type} (f : α → Outcome) (x : Res St α) (st : St) (c : Call) :
      GenSt r regs st → absRes r regs f x = step (absS r regs st) c → GenSt r regs x.2

theorem genSt_abs {r : Role} {regs : Regs} {st : St} (h : GenSt r regs st) : GenReachable (absS r regs st) := by
  induction h with
  | new_client hr => subst hr; exact .client regs
  | new_server hr => subst hr; exact .server regs
  | call f x st c _ htie ih =>
    have e : absS r regs x.2 = (step (absS r regs st) c).1 := congrArg Prod.fst htie
    rw [e]
    exact .step _ c ih

/-- the generated public methods keep `GenSt` (all of them; `bind` for `version = 3`, `search_request` for
    member values of the two enums: outside them it raises and changes nothing; `receive` under `ResidueAgrees`,
    see there) -/
theorem GenSt.data_to_send {r regs st} (h : GenSt r regs st) (amount : Option Int) :
    GenSt r regs (LDAPSession_data_to_send st amount).2 :=
  .call _ _ st _ h (TiesSession.tie_data_to_send r regs st amount)

theorem GenSt.client_unbind {regs st} (h : GenSt .client regs st) : GenSt .client regs (LDAPClient_LDAPSession_unbind st).2 :=
  .call _ _ st _ h (TiesSession.tie_client_unbind regs st)

theorem GenSt.server_unbind {regs st} (h : GenSt .server regs st) : GenSt .server regs (LDAPServer_LDAPSession_unbind st).2 :=
  .call _ _ st _ h (TiesSession.tie_server_unbind regs st)

/-- `ResidueAgrees` from a successful unpacking (decidable on concrete octets) -/
theorem residueAgrees_of_ok {regs : Regs} {st : St} {chunk : Bytes}
    (h : (parseLoop regs defaultDepth (st.incoming_buffer ++ chunk).length
            (st.incoming_buffer ++ chunk)).toOption.isSome = true) :
    ResidueAgrees regs defaultDepth st chunk := by
  cases hp : parseLoop regs defaultDepth (st.incoming_buffer ++ chunk).length (st.incoming_buffer ++ chunk) with
  | ok p => exact .inr ⟨p, hp⟩
  | error e => rw [hp] at h; cases h

/-- `receive` with `unpack_ldap_message := decMsg regs defaultDepth` (round 12: the unpacking loops are generated
    text, `unpackOracle` is gone).  The step tie is exact only under `ResidueAgrees` (the buffer was non-empty
    before the call, or the unpacking of `_incoming_buffer ++ chunk` does not raise); it is carried here as an
    explicit hypothesis.  It is NOT an invariant of `GenSt`: on an empty buffer and a chunk whose unpacking raises
    the Python leaves `_incoming_buffer = []` while the model's `recv` keeps `chunk` as residue, so the abstraction
    of the resulting (CLOSED) record is not the model's step.  For that case see `GenSt.client_receive_forget` /
    `GenSt.server_receive_forget` (everything but the residue is the model's step, unconditionally). -/
theorem GenSt.client_receive {regs st} (h : GenSt .client regs st) (chunk : Bytes)
    (hra : ResidueAgrees regs defaultDepth st chunk) :
    GenSt .client regs (LDAPClient_receive st chunk (decMsg regs defaultDepth)).2 :=
  .call _ _ st _ h (TiesSession.tie_client_receive_step regs st chunk hra)

theorem GenSt.server_receive {regs st} (h : GenSt .server regs st) (chunk text : Bytes)
    (hra : ResidueAgrees regs defaultDepth st chunk) :
    GenSt .server regs (LDAPServer_receive st chunk (decMsg regs defaultDepth) text).2 :=
  .call _ _ st _ h (TiesSession.tie_server_receive_step regs st chunk text hra)

/-- without `ResidueAgrees` (the `_forget` ties): up to the residue, the abstraction of the record after `receive`
    is the session after the model's `.receive` step from a `GenReachable` session (hence itself `GenReachable`) -/
theorem GenSt.client_receive_forget {regs st} (h : GenSt .client regs st) (chunk : Bytes) :
    ∃ s', GenReachable s' ∧
      { absS .client regs (LDAPClient_receive st chunk (decMsg regs defaultDepth)).2 with residue := [] }
        = { s' with residue := [] } :=
  ⟨(step (absS .client regs st) (.receive chunk)).1, .step _ _ (genSt_abs h),
    congrArg Prod.fst (TiesSession.tie_client_receive_step_forget regs st chunk)⟩

theorem GenSt.server_receive_forget {regs st} (h : GenSt .server regs st) (chunk text : Bytes) :
    ∃ s', GenReachable s' ∧
      { absS .server regs (LDAPServer_receive st chunk (decMsg regs defaultDepth) text).2 with residue := [] }
        = { s' with residue := [] } :=
  ⟨(step (absS .server regs st) (.receive chunk)).1, .step _ _ (genSt_abs h),
    congrArg Prod.fst (TiesSession.tie_server_receive_step_forget regs st chunk text)⟩

theorem GenSt.bind {regs st} (h : GenSt .client regs st) (dn : Bytes) (cred : Cred) (controls : Option (List Control))
    (hv : st.version = Facts.ldapVersion) : GenSt .client regs (LDAPClient_bind st dn cred controls).2 :=
  .call _ _ st _ h (TiesSession.tie_bind regs st dn cred controls hv)

theorem GenSt.extended_request {regs st} (h : GenSt .client regs st) (name : Bytes) (value : Option Bytes)
    (controls : Option (List Control)) : GenSt .client regs (LDAPClient_extended_request st name value controls).2 :=
  .call _ _ st _ h (TiesSession.tie_extended_request regs st name value controls)

theorem GenSt.search_request {regs st} (h : GenSt .client regs st) (base : Option Bytes) (scope deref sl tl : Int)
    (ty : Bool) (filter : Option Filter) (attrs : Option (List Bytes)) (controls : Option (List Control)) :
    GenSt .client regs (LDAPClient_search_request st base scope deref sl tl ty filter attrs controls).2 := by
  by_cases hm : scope ∈ SearchScope_members ∧ deref ∈ DereferencingPolicy_members
  · exact .call _ _ st _ h
      (TiesSession.tie_search_request regs st base scope deref sl tl ty filter attrs controls hm.1 hm.2)
  · have hb : scope ∉ SearchScope_members ∨ deref ∉ DereferencingPolicy_members := by
      by_cases h1 : scope ∈ SearchScope_members
      · exact .inr (fun h2 => hm ⟨h1, h2⟩)
      · exact .inl h1
    rw [TiesSession.tie_search_request_bad_enum st base scope deref sl tl ty filter attrs controls hb]
    exact h

theorem GenSt.bind_response {regs st} (h : GenSt .server regs st) (id : Int) (sasl : Option Bytes) (code : Int)
    (mdn diag : Option Bytes) (controls : Option (List Control)) :
    GenSt .server regs (LDAPServer_bind_response st id sasl code mdn diag controls).2 :=
  .call _ _ st _ h (TiesSession.tie_bind_response regs st id sasl code mdn diag controls)

theorem GenSt.extended_response {regs st} (h : GenSt .server regs st) (id : Int) (name value : Option Bytes)
    (code : Int) (mdn diag : Option Bytes) (controls : Option (List Control)) :
    GenSt .server regs (LDAPServer_extended_response st id name value code mdn diag controls).2 :=
  .call _ _ st _ h (TiesSession.tie_extended_response regs st id name value code mdn diag controls)

theorem GenSt.search_result_entry {regs st} (h : GenSt .server regs st) (id : Int) (name : Bytes)
    (attrs : List (Bytes × List Bytes)) (controls : Option (List Control)) :
    GenSt .server regs (LDAPServer_search_result_entry st id name attrs controls).2 :=
  .call _ _ st _ h (TiesSession.tie_search_result_entry regs st id name attrs controls)

theorem GenSt.search_result_reference {regs st} (h : GenSt .server regs st) (id : Int) (uris : List Bytes)
    (controls : Option (List Control)) :
    GenSt .server regs (LDAPServer_search_result_reference st id uris controls).2 :=
  .call _ _ st _ h (TiesSession.tie_search_result_reference regs st id uris controls)

theorem GenSt.search_result_done {regs st} (h : GenSt .server regs st) (id : Int) (code : Int)
    (mdn diag : Option Bytes) (controls : Option (List Control)) :
    GenSt .server regs (LDAPServer_search_result_done st id code mdn diag controls).2 :=
  .call _ _ st _ h (TiesSession.tie_search_result_done regs st id code mdn diag controls)

/-- non-vacuity: a server that received an ExtendedRequest (id 1) and answered with an ExtendedResponse -/
example : GenSt .server {}
    (LDAPServer_extended_response
      (LDAPServer_receive LDAPServer_new [48, 8, 2, 1, 1, 119, 3, 128, 1, 49]
        (decMsg {} defaultDepth) []).2
      1 none none 0 none none none).2 :=
  ((GenSt.new_server rfl).server_receive _ _ (residueAgrees_of_ok (by decide))).extended_response 1 none none 0 none none none

/-! ### transfer principles -/

/-- a predicate on sessions that ignores a server's counter and holds of all `Reachable` sessions holds of
    the abstraction of every state the generated methods reach -/
theorem transfer_state (P : Sess → Prop)
    (hP : ∀ (s : Sess) (k : Int), s.role = .server → P s → P { s with counter := k })
    (hall : ∀ s, Reachable s → P s) {r : Role} {regs : Regs} {st : St} (h : GenSt r regs st) :
    P (absS r regs st) :=
  Proofs.SessionGenBridge.transfer_state P hP hall (genSt_abs h)

/-- a predicate on (final session, outcomes) of a history that ignores a server's counter and holds of all
    runs from `Reachable` sessions holds of all runs from the abstraction of a generated state -/
theorem transfer_run (Q : Sess → List Outcome → Prop)
    (hQ : ∀ (s : Sess) (k : Int) (os : List Outcome), s.role = .server → Q s os → Q { s with counter := k } os)
    (hall : ∀ s cs, Reachable s → Q (run s cs).1 (run s cs).2)
    {r : Role} {regs : Regs} {st : St} (h : GenSt r regs st) (cs : List Call) :
    Q (run (absS r regs st) cs).1 (run (absS r regs st) cs).2 :=
  Proofs.SessionGenBridge.transfer_run Q hQ hall (genSt_abs h) cs

/-- one call: any relation between the lifecycle state before, after, the events and the outcome -/
theorem transfer_step (Q : SState → SState → List Ev → Outcome → Prop)
    (hall : ∀ s c, Reachable s → Q s.state (step s c).1.state (events s c (step s c).2) (step s c).2)
    {r : Role} {regs : Regs} {st : St} (h : GenSt r regs st) (c : Call) :
    Q (absS r regs st).state (step (absS r regs st) c).1.state
      (events (absS r regs st) c (step (absS r regs st) c).2) (step (absS r regs st) c).2 :=
  Proofs.SessionGenBridge.transfer_step Q hall (genSt_abs h) c

/-! ### the headline theorems, for the abstraction of generated states -/

theorem knownDeviation_counter (k : Int) (s : Sess) (c : Call) (hr : s.role = .server) :
    C08.KnownDeviation { s with counter := k } c ↔ C08.KnownDeviation s c := by
  unfold C08.KnownDeviation
  have := step_counter k s c hr
  unfold setCounter at this
  rw [this]

/-- C08 `refines` -/
theorem c08_refines {s : Sess} (h : GenReachable s) (c : Call) (hx : ¬C08.KnownDeviation s c) :
    (step s c).1.state = (events s c (step s c).2).foldl specNext s.state := by
  rcases genReachable_bridge h with ⟨_, h⟩ | ⟨hr, s', h, e⟩
  · exact C08.refines s c h hx
  · have hr' : s'.role = .server := by rw [e] at hr; exact hr
    have hx' : ¬C08.KnownDeviation s' c := by
      intro hk; apply hx; rw [e]; exact (knownDeviation_counter 0 s' c hr').2 hk
    have := C08.refines s' c h hx'
    rw [e, step_counter 0 s' c hr', events_counter 0 s' c hr']
    exact this

theorem c08_refines_gen {r regs st} (h : GenSt r regs st) (c : Call) (hx : ¬C08.KnownDeviation (absS r regs st) c) :
    (step (absS r regs st) c).1.state
      = (events (absS r regs st) c (step (absS r regs st) c).2).foldl specNext (absS r regs st).state :=
  c08_refines (genSt_abs h) c hx

/-- C08 `refines_history` -/
theorem c08_refines_history {s : Sess} (h : GenReachable s) (cs : List Call)
    (hx : ∀ s' c, GenReachable s' → c ∈ cs → ¬C08.KnownDeviation s' c) :
    (run s cs).1.state = (historyEvents s cs).foldl specNext s.state := by
  have hx' : ∀ s' c, Reachable s' → c ∈ cs → ¬C08.KnownDeviation s' c := by
    intro s' c hs' hc hk
    have hg := reachable_genReachable hs'
    cases hr : s'.role with
    | client => rw [hr] at hg; exact hx s' c hg hc hk
    | server => rw [hr] at hg; exact hx _ c hg hc ((knownDeviation_counter 0 s' c hr).2 hk)
  rcases genReachable_bridge h with ⟨_, h⟩ | ⟨hr, s', h, e⟩
  · exact C08.refines_history s cs h hx'
  · have hr' : s'.role = .server := by rw [e] at hr; exact hr
    have := C08.refines_history s' cs h hx'
    rw [e, run_counter 0 cs s' hr', historyEvents_counter 0 cs s' hr']
    exact this

theorem c08_refines_history_gen {r regs st} (h : GenSt r regs st) (cs : List Call)
    (hx : ∀ s' c, GenReachable s' → c ∈ cs → ¬C08.KnownDeviation s' c) :
    (run (absS r regs st) cs).1.state = (historyEvents (absS r regs st) cs).foldl specNext (absS r regs st).state :=
  c08_refines_history (genSt_abs h) cs hx

/-- C08 `leaves_binding_only_on_bind_done` -/
theorem c08_leaves_binding {r regs st} (h : GenSt r regs st) (c : Call) (hb : (absS r regs st).state = .binding)
    (hn : (step (absS r regs st) c).1.state ≠ .binding) :
    (step (absS r regs st) c).1.state = .closed ∨
      ((step (absS r regs st) c).1.state = .opened ∧ .bindDone ∈ events (absS r regs st) c (step (absS r regs st) c).2) :=
  transfer_step (fun a b evs _ => a = .binding → b ≠ .binding → b = .closed ∨ (b = .opened ∧ .bindDone ∈ evs))
    (fun s c hr hb hn => C08.leaves_binding_only_on_bind_done s c hr hb hn) h c hb hn

/-- C08 `closed_final` needs no reachability: it holds of `absS r regs st` for every `st` -/
theorem c08_closed_final (r : Role) (regs : Regs) (st : St) (c : Call) (h : st.state = .CLOSED) :
    (step (absS r regs st) c).1.state = .closed ∧
      (∃ k, (step (absS r regs st) c).1.out = st.outgoing_buffer.drop k) ∧
      (c.isSend = true → (step (absS r regs st) c).2 = .ldapError ∨ (step (absS r regs st) c).2 = .notApplicable) ∧
      (∀ chunk, c = .receive chunk →
        (∃ n, (step (absS r regs st) c).2 = .protocolError n) ∧ (step (absS r regs st) c).1.residue = st.incoming_buffer) :=
  C08.closed_final (absS r regs st) c (by simp [h])

/-- C09 `accepted_iff` / `searches_outstanding`: a client, so `Reachable` itself -/
theorem c09_accepted_iff {regs st} (h : GenSt .client regs st) (m : Msg) (hs : st.state ≠ .CLOSED) :
    (clientProcess (absS .client regs st) m).isSome = true ↔ (m.op.isResponse = true ∧ m.id ∈ st.outstanding_requests) :=
  C09.accepted_iff (absS .client regs st) m ((genSt_abs h).of_client rfl) rfl
    (by intro hc; exact hs ((absState_eq_iff _ _).1 hc))

theorem c09_searches_outstanding {regs st} (h : GenSt .client regs st) (hs : st.state ≠ .CLOSED) :
    ∀ i ∈ st.search_requests, i ∈ st.outstanding_requests :=
  C09.searches_outstanding (absS .client regs st) ((genSt_abs h).of_client rfl) rfl
    (by intro hc; exact hs ((absState_eq_iff _ _).1 hc))

/-- C10 `refused_no_wire_effect` needs no reachability -/
theorem c10_refused_no_wire_effect (r : Role) (regs : Regs) (st : St) (c : Call) (hs : c.isSend = true)
    (hr : (step (absS r regs st) c).2.accepted = false) :
    (step (absS r regs st) c).1.out = st.outgoing_buffer ∧
      ((step (absS r regs st) c).2 = .ldapError ∨ (step (absS r regs st) c).2 = .notApplicable) :=
  C10.refused_no_wire_effect (absS r regs st) c hs hr

/-- the same on a generated method, through its step tie: a refused `search_result_done` leaves
    `_outgoing_buffer` as it was and raises `LDAPError` -/
theorem c10_refused_search_result_done (st : St) (id code : Int) (mdn diag : Option Bytes)
    (controls : Option (List Control)) (e : Exc)
    (hx : (LDAPServer_search_result_done st id code mdn diag controls).1 = .error e) :
    (LDAPServer_search_result_done st id code mdn diag controls).2.outgoing_buffer = st.outgoing_buffer ∧
      e = .ldapError := by
  have htie := TiesSession.tie_search_result_done {} st id code mdn diag controls
  have h1 := congrArg Prod.fst htie
  have h2 := congrArg Prod.snd htie
  simp only [absRes, hx] at h1 h2
  have hacc : (step (absS .server {} st) (.done id code (mdn.getD []) (diag.getD []) (controls.getD []))).2.accepted
      = false := by
    rw [← h2]
    cases e with
    | protocolError a b => cases b <;> rfl
    | _ => rfl
  have hw := C10.refused_no_wire_effect (absS .server {} st) _ rfl hacc
  rw [← h2, ← h1] at hw
  refine ⟨hw.1, ?_⟩
  rcases hw.2 with h | h
  · cases e with
    | ldapError => rfl
    | protocolError a b => cases b <;> cases h
    | _ => cases h
  · cases e with
    | protocolError a b => cases b <;> cases h
    | _ => cases h

/-- C12 `queue` holds from any session; for a server the ghost totals are those of the `Reachable` twin -/
theorem c12_queue (r : Role) (regs : Regs) (st : St) (cs : List Call) :
    (totals (absS r regs st) cs).1 ++ (run (absS r regs st) cs).1.out
      = st.outgoing_buffer ++ (totals (absS r regs st) cs).2 :=
  C12.queue (absS r regs st) cs

theorem c12_totals_fresh_server (regs : Regs) (cs : List Call) :
    totals (absS .server regs LDAPServer_new) cs = totals { Sess.init .server with regs := regs } cs :=
  totals_counter 0 cs { Sess.init .server with regs := regs } rfl

/-! non-vacuity of the transfer: a live server history through the generated functions -/
example :
    let st1 := (LDAPServer_receive LDAPServer_new [48, 8, 2, 1, 1, 119, 3, 128, 1, 49]
      (decMsg {} defaultDepth) []).2
    let st2 := (LDAPServer_extended_response st1 1 none none 0 none none none).2
    st1.outstanding_requests = [1] ∧ st2.outstanding_requests = [] ∧ st2.state = .OPENED ∧ st2.message_counter = 0 ∧
      st2.outgoing_buffer ≠ [] := by decide

end Verif.TiesSessionBridge
