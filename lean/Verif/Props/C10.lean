/-
C10 — rejected calls have no wire effect; servers answer only open requests.
-/
import Verif.Spec.SessionSpec
import Verif.Proofs.Session

namespace Verif.C10
open Verif

abbrev respId := Call.respId

/-- response kinds that complete the request (anything but a search entry or reference) -/
def isFinalResp : Call → Bool
  | .bindResponse .. | .extendedResponse .. | .done .. => true
  | _ => false

/-- a refused message-sending call (client or server, any state) leaves the outgoing byte
    stream exactly as it was and fails with the library's own error type -/
theorem refused_no_wire_effect (s : Sess) (c : Call) (hs : c.isSend = true)
    (hr : (step s c).2.accepted = false) :
    (step s c).1.out = s.out ∧
      ((step s c).2 = .ldapError ∨ (step s c).2 = .notApplicable) :=
  Proofs.refused_no_wire_effect s c hs hr

/-- a server emits a response only for a request that is currently outstanding -/
theorem response_only_for_outstanding (s : Sess) (c : Call) (id : Int) (hrole : s.role = .server)
    (hid : respId c = some id) (ha : (step s c).2.accepted = true) :
    id ∈ s.outstanding :=
  Proofs.response_only_for_outstanding s c id hrole hid ha

/-- a final response retires the request ... -/
theorem final_retires (s : Sess) (c : Call) (id : Int) (hrole : s.role = .server)
    (hid : respId c = some id) (hf : isFinalResp c = true) (ha : (step s c).2.accepted = true) :
    id ∉ (step s c).1.outstanding :=
  Proofs.final_retires s c id hrole hid hf ha

/-- ... so that a second response to it (of any kind) is rejected with no wire effect -/
theorem second_response_rejected (s : Sess) (c c' : Call) (id : Int) (hrole : s.role = .server)
    (hid : respId c = some id) (hid' : respId c' = some id) (hf : isFinalResp c = true)
    (ha : (step s c).2.accepted = true) :
    (step (step s c).1 c').2 = .ldapError ∧ (step (step s c).1 c').1.out = (step s c).1.out :=
  Proofs.second_response_rejected s c c' id hrole hid hid' hf ha

/-- a search entry or reference leaves the request open -/
theorem entry_keeps_open (s : Sess) (c : Call) (id : Int) (hrole : s.role = .server)
    (hid : respId c = some id) (hf : isFinalResp c = false) (ha : (step s c).2.accepted = true) :
    id ∈ (step s c).1.outstanding :=
  Proofs.entry_keeps_open s c id hrole hid hf ha

/-! non-vacuity: a server with request 5 outstanding accepts `done 5` once, then refuses it -/
example :
    let s : Sess := { role := .server, state := .opened, outstanding := [5], searches := [5] }
    (step s (.done 5 0 [] [] [])).2.accepted = true ∧
      (step (step s (.done 5 0 [] [] [])).1 (.entry 5 [] [] [])).2.accepted = false := by decide

end Verif.C10
