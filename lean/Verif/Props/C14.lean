/-
C14 — filter text is parsed as RFC 4515 defines it.
-/
import Verif.Spec.Rfc4515
import Verif.Spec.WF
import Verif.Spec.Rfc4511
import Verif.Proofs.FilterGrammar
import Verif.Proofs.StrictDecode

namespace Verif.C14
open Verif Verif.Rfc4515

/-- Every sentence of the RFC 4515 grammar (any derivation: any nesting, escapes in either
    hex case, raw octets, empty values, options, OIDs, `dn` in any case, the tolerated spaces)
    is accepted and yields exactly the tree the grammar denotes.  `s` is the input string (its
    scalar values): after `str.strip()` its UTF-8 octets are the sentence `t`, so any
    Unicode white space around the filter is covered as well. -/
theorem parses (f : Filter) (t : Bytes) (s : List Nat) (depth : Nat)
    (h : Sent f t) (hs : utf8Encode (pyStrip s) = t) (hd : Filter.depth f < depth) :
    parseFilterText depth s = .ok f :=
  Proofs.parse_sentence f t s depth h hs hd

/-- the tree a sentence denotes is a well-formed message component (its attribute
    descriptions are ASCII, hence valid text) … -/
theorem denoted_wf (f : Filter) (t : Bytes) (h : Sent f t) : Filter.WF {} f :=
  Proofs.sent_wf f t h

/-- … so the bytes a search request carrying the parsed filter encodes to are the RFC 4511
    encoding of that tree: the independent strict decoder reads the request back with the
    same filter (C03). -/
theorem search_request_bytes (f : Filter) (t : Bytes) (h : Sent f t)
    (id : Int) (base : Bytes) (hb : IsText base) (attrs : List Bytes) (ha : ∀ a ∈ attrs, IsText a)
    (hs : (encMsg ⟨id, .searchReq base 2 0 0 0 false f attrs, []⟩).length < 256 ^ 126) :
    Rfc.decode (encMsg ⟨id, .searchReq base 2 0 0 0 false f attrs, []⟩)
      = some ⟨id, .searchReq base 2 0 0 0 false f attrs, []⟩ :=
  Proofs.search_request_strict f t h id base hb attrs ha hs

/-! non-vacuity: `( & (cn=a\2Ab) (!(o:DN:2.5.13.2:=x)) )` -/
example : Sent (.and [.eq [99, 110] [97, 42, 98], .not (.ext (some [50, 46, 53, 46, 49, 51, 46, 50]) (some [111]) [120] true)])
    ([40] ++ sp 1 ++ [38] ++ sp 1 ++
      (([40] ++ sp 0 ++ [99, 110] ++ [61] ++ [97, 92, 50, 65, 98] ++ [41]) ++ sp 1 ++
       (([40] ++ sp 0 ++ [33] ++ sp 0 ++
          ([40] ++ sp 0 ++ [111] ++ (if true then [58] ++ [68, 78] else []) ++
            (match (some [50, 46, 53, 46, 49, 51, 46, 50] : Option Bytes) with | none => [] | some r => [58] ++ r) ++ [58, 61] ++ [120] ++ [41])
          ++ sp 0 ++ [41]) ++ sp 1 ++ [])) ++ [41]) :=
  Proofs.sample_sentence

end Verif.C14
