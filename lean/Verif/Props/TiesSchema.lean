/-
Ties between the deterministic scanner that stands for `PATTERN.match(value)` in the model of
`schema.py` and the regular expressions the library actually compiles (regenerated, named
groups kept, into `Generated/Regexes.lean` on every run).

`re.match` is a backtracking search: it may give characters back, skip an optional group it
has already matched, or try the second alternative of `[0-9]|[1-9][0-9]+` when what follows
fails.  The scanner never looks back.  The theorems below state that for EVERY string of code
points the two agree — on acceptance and on the text of every named group the library reads —
so every C16 / C17 theorem about `parseOC` / `parseAT` / `parseDCR` is a theorem about the
patterns in the source, and an edit to a grammar fragment in `schema.py` (`NUMBER`, `QDESCRS`,
`DSTRING`, `EXTENSIONS`, a keyword, the order of the optional groups …) breaks one of them.
-/
import Verif.Model.ReCap
import Verif.Model.SchemaMatch
import Verif.Generated.Regexes
import Verif.Spec.SchemaGroups
import Verif.Proofs.SchemaMatchPost
import Verif.Proofs.ReSchemaMatch

namespace Verif.TiesSchema
open Verif Verif.Schema

/-! ### `from_string` is the match followed by the post-processing -/

theorem parseOC_eq_match (s : Str) :
    parseOC s = match matchOC s with | none => .error .valueError | some g => postOC g :=
  Proofs.parseOC_eq_match s

theorem parseAT_eq_match (s : Str) :
    parseAT s = match matchAT s with | none => .error .valueError | some g => postAT g :=
  Proofs.parseAT_eq_match s

theorem parseDCR_eq_match (s : Str) :
    parseDCR s = match matchDCR s with | none => .error .valueError | some g => postDCR g :=
  Proofs.parseDCR_eq_match s

/-! ### the scanner is the compiled pattern -/

/-- `OBJECT_CLASS_DESCRIPTION.match(s)`: same acceptance, same text in every named group -/
theorem oc_match_eq_pattern (s : Str) (hs : IsStr s) :
    (Re.matchG Regexes.schema_OBJECT_CLASS_DESCRIPTION_g s).map (fun p => ocGroups p.2) = matchOC s :=
  Proofs.oc_match_eq_pattern s hs

/-- `ATTRIBUTE_TYPE_DESCRIPTION.match(s)` -/
theorem at_match_eq_pattern (s : Str) (hs : IsStr s) :
    (Re.matchG Regexes.schema_ATTRIBUTE_TYPE_DESCRIPTION_g s).map (fun p => atGroups p.2) = matchAT s :=
  Proofs.at_match_eq_pattern s hs

/-- `DIT_CONTENT_RULE_DESCRIPTION.match(s)` -/
theorem dcr_match_eq_pattern (s : Str) (hs : IsStr s) :
    (Re.matchG Regexes.schema_DIT_CONTENT_RULE_DESCRIPTION_g s).map (fun p => dcrGroups p.2) = matchDCR s :=
  Proofs.dcr_match_eq_pattern s hs

/-- `re.match(NOIDLEN_MATCH, syntax)`: groups `value` and `len` -/
theorem noidlen_match_eq_pattern (s : Str) (hs : IsStr s) :
    (Re.matchG Regexes.schema_NOIDLEN_MATCH_g s).map
      (fun p => ((grp Regexes.schema_NOIDLEN_MATCH_groups p.2 "value").getD [],
                 (grp Regexes.schema_NOIDLEN_MATCH_groups p.2 "len").getD [])) = noidlenMatch s :=
  Proofs.noidlen_match_eq_pattern s hs

/-- the capture-aware semantics refines the plain one: forgetting the captures gives `Re.runs` -/
theorem runsG_fst (r : Re) (s : List Nat) : (Re.runsG r s).map Prod.fst = Re.runs r s :=
  Proofs.runsG_fst r s

/-- dropping the groups from a pattern does not change its runs (so the cost theorems of C18,
    proved on the group-free translation, are about the same search) -/
theorem oc_g_same_runs (s : List Nat) :
    Re.runs Regexes.schema_OBJECT_CLASS_DESCRIPTION_g s = Re.runs Regexes.schema_OBJECT_CLASS_DESCRIPTION s :=
  Proofs.oc_g_same_runs s

theorem at_g_same_runs (s : List Nat) :
    Re.runs Regexes.schema_ATTRIBUTE_TYPE_DESCRIPTION_g s = Re.runs Regexes.schema_ATTRIBUTE_TYPE_DESCRIPTION s :=
  Proofs.at_g_same_runs s

theorem dcr_g_same_runs (s : List Nat) :
    Re.runs Regexes.schema_DIT_CONTENT_RULE_DESCRIPTION_g s = Re.runs Regexes.schema_DIT_CONTENT_RULE_DESCRIPTION s :=
  Proofs.dcr_g_same_runs s

theorem noidlen_g_same_runs (s : List Nat) :
    Re.runs Regexes.schema_NOIDLEN_MATCH_g s = Re.runs Regexes.schema_NOIDLEN_MATCH s :=
  Proofs.noidlen_g_same_runs s

/-! ### end to end: the model's `from_string` IS `PATTERN.match` (the compiled pattern, with its
    backtracking) followed by the post-processing of the named groups -/

theorem parseOC_is_pattern_then_post (s : Str) (hs : IsStr s) :
    parseOC s = match (Re.matchG Regexes.schema_OBJECT_CLASS_DESCRIPTION_g s).map (fun p => ocGroups p.2) with
      | none => .error .valueError
      | some g => postOC g := by
  rw [oc_match_eq_pattern s hs]; exact parseOC_eq_match s

theorem parseAT_is_pattern_then_post (s : Str) (hs : IsStr s) :
    parseAT s = match (Re.matchG Regexes.schema_ATTRIBUTE_TYPE_DESCRIPTION_g s).map (fun p => atGroups p.2) with
      | none => .error .valueError
      | some g => postAT g := by
  rw [at_match_eq_pattern s hs]; exact parseAT_eq_match s

theorem parseDCR_is_pattern_then_post (s : Str) (hs : IsStr s) :
    parseDCR s = match (Re.matchG Regexes.schema_DIT_CONTENT_RULE_DESCRIPTION_g s).map (fun p => dcrGroups p.2) with
      | none => .error .valueError
      | some g => postDCR g := by
  rw [dcr_match_eq_pattern s hs]; exact parseDCR_eq_match s

/-! non-vacuity: a sentence with backtracking-relevant content (the regex engine first tries
    `1` for the second arc of `1.23`, a keyword-like name, an escaped quote) -/
example : matchOC (ofString "( 1.23 NAME 'SUP' DESC 'a\\27 )' SUP top X-a ( 'b' ) )") =
    some { oid := some (ofString "1.23"), name := some (ofString "'SUP'"), desc := some (ofString "'a\\27 )'"),
           obsolete := false, sup := some (ofString "top"), kind := none, must := none, may := none,
           extensions := some (ofString " X-a ( 'b' )") } := by decide

end Verif.TiesSchema
