/-
C08 (additions after the statement audit) — the history refinement without the vacuous
hypothesis, and the `receive`-level forms of two clauses that `Props/C08.lean` states only on
the internal delivery loop.

Audit finding: `C08.refines_history` asks `¬KnownDeviation s' c` of EVERY reachable `s'`; since
`KnownDeviation (Sess.init .server) c` holds for every server response call `c`, that
hypothesis is false for every history containing such a call.  The theorems below replace it.
-/
import Verif.Props.C08
import Verif.Spec.C08More
import Verif.Spec.Joint
import Verif.Proofs.C08More

namespace Verif.C08
open Verif

/-! ## 1. "each session's visible state evolves exactly as documented", over histories -/

/-- `KnownDev` of `Spec/C08More.lean` is `KnownDeviation` of `Props/C08.lean`. -/
theorem knownDev_iff (s : Sess) (c : Call) : KnownDev s c ↔ KnownDeviation s c := Iff.rfl

/-- Clause "for every history … the visible state evolves exactly as documented", with the
    known finding F-C08c excluded only where it could actually occur: for every split
    `cs = pre ++ c :: post` the call `c` is not a deviation in the state it is made in,
    `(run s pre).1`.  Conclusion as in `refines_history`. -/
theorem refines_history' (s : Sess) (cs : List Call) (hr : Reachable s)
    (hx : ∀ pre c post, cs = pre ++ c :: post → ¬KnownDeviation (run s pre).1 c) :
    (run s cs).1.state = (historyEvents s cs).foldl specNext s.state :=
  Proofs.C08More.refines_history' s cs hr hx

/-- The split form of the hypothesis of `refines_history'` is the recursive predicate
    `NoDeviationAlong` (which is how one checks it on a concrete history). -/
theorem along_iff (s : Sess) (cs : List Call) :
    (∀ pre c post, cs = pre ++ c :: post → ¬KnownDeviation (run s pre).1 c) ↔ NoDeviationAlong s cs :=
  Proofs.C08More.along_iff s cs

/-- `refines_history'` subsumes `refines_history`: the old hypothesis implies the new one. -/
theorem along_of_all (s : Sess) (cs : List Call) (hr : Reachable s)
    (hx : ∀ s' c, Reachable s' → c ∈ cs → ¬KnownDeviation s' c) : NoDeviationAlong s cs :=
  Proofs.C08More.along_of_all s cs hr hx

/-- Same clause with NO deviation hypothesis at all, for every reachable session and every
    history, modulo the quotient that identifies exactly BEFORE_OPEN and OPENED
    (`stateClass_eq_iff`).  The documented automaton is a congruence for that quotient and the
    known deviation moves only inside it. -/
theorem refines_history_mod (s : Sess) (cs : List Call) (hr : Reachable s) :
    Joint.stateClass (run s cs).1.state =
      Joint.stateClass ((historyEvents s cs).foldl specNext s.state) :=
  Proofs.C08More.refines_history_mod s cs hr

/-- what the quotient of `refines_history_mod` identifies -/
theorem stateClass_eq_iff (a b : SState) :
    Joint.stateClass a = Joint.stateClass b ↔
      a = b ∨ (a = .beforeOpen ∧ b = .opened) ∨ (a = .opened ∧ b = .beforeOpen) :=
  Proofs.C08More.stateClass_eq_iff a b

/-- Stronger than `refines_history_mod`, still with no deviation hypothesis: after every
    history the visible state IS the documented one, except that a server may show OPENED
    where the documentation still says BEFORE_OPEN (it has refused a response call before any
    traffic — F-C08c — and nothing has been sent or received since).  The opposite mismatch
    (model BEFORE_OPEN, documentation OPENED) never happens, and BINDING / CLOSED are always
    exact. -/
theorem refines_history_exact (s : Sess) (cs : List Call) (hr : Reachable s) :
    (run s cs).1.state = (historyEvents s cs).foldl specNext s.state ∨
      (s.role = .server ∧ (run s cs).1.state = .opened ∧
        (historyEvents s cs).foldl specNext s.state = .beforeOpen) :=
  Proofs.C08More.refines_history_exact s cs hr

/-- A client session refines the documented automaton exactly, for every history, with no
    side condition. -/
theorem refines_history_client (s : Sess) (cs : List Call) (hr : Reachable s) (hrole : s.role = .client) :
    (run s cs).1.state = (historyEvents s cs).foldl specNext s.state :=
  Proofs.C08More.refines_history_client s cs hr hrole

/-- So does any session that has left BEFORE_OPEN (in particular a server after its first
    delivery), for every continuation. -/
theorem refines_history_started (s : Sess) (cs : List Call) (hr : Reachable s)
    (hb : s.state ≠ .beforeOpen) :
    (run s cs).1.state = (historyEvents s cs).foldl specNext s.state :=
  Proofs.C08More.refines_history_started s cs hr hb

/-! ## 2. "a bind cannot start while other operations are outstanding", at `receive` level -/

/-- Clause "a bind cannot start while other operations are outstanding", server side, stated
    on `receive` itself instead of the internal loop (`server_bind_needs_idle`).
    The delivery (together with the buffered residue) parses into `pre ++ m :: post` where `m`
    is a BindRequest, and operations are outstanding when `m` is reached: either some were
    before the call, or `pre` is non-empty (each accepted request of `pre` becomes outstanding;
    a message of `pre` that is not accepted already ends the call the same way).
    Then `receive` raises ProtocolError, the session is CLOSED with no outstanding ids, no
    bytes are queued, and the unparsed tail is all that stays buffered.  The notification
    attached is the Notice of Disconnection unless an UnbindRequest in `pre` ended the call
    first (the server attaches nothing in reply to an unbind). -/
theorem recv_server_bind_needs_idle (d : Nat) (s : Sess) (chunk : Bytes) (ms : List Msg) (rest : Bytes)
    (pre : List Msg) (m : Msg) (post : List Msg)
    (hrole : s.role = .server) (hs : s.state ≠ .closed)
    (hp : parseLoop s.regs d (s.residue ++ chunk).length (s.residue ++ chunk) = .ok (ms, rest))
    (hms : ms = pre ++ m :: post) (hb : IsBindRequest m)
    (ho : s.outstanding ≠ [] ∨ pre ≠ []) :
    (∃ n, (recv d s chunk).2 = .protocolError n) ∧
      ((∀ x ∈ pre, x.op.isUnbind = false) → (recv d s chunk).2 = .protocolError .notice) ∧
      (recv d s chunk).1.state = .closed ∧ (recv d s chunk).1.outstanding = [] ∧
      (recv d s chunk).1.out = s.out ∧ (recv d s chunk).1.residue = rest :=
  Proofs.C08More.recv_server_bind_needs_idle d s chunk ms rest pre m post hrole hs hp hms hb ho

/-- The same without mentioning the parser: the delivery is the wire encoding of well-formed
    messages `pre ++ m :: post` (nothing buffered before), `m` a BindRequest, and the server is
    busy when it gets to `m`.  `d` is the recursion budget of `receive` (filters nested deeper
    are a different error, C05). -/
theorem recv_server_bind_wire (d : Nat) (s : Sess) (pre : List Msg) (m : Msg) (post : List Msg)
    (hrole : s.role = .server) (hs : s.state ≠ .closed) (hres : s.residue = [])
    (hwf : ∀ x ∈ pre ++ m :: post, x.WF s.regs ∧ x.op.filterDepth < d)
    (hb : IsBindRequest m) (ho : s.outstanding ≠ [] ∨ pre ≠ []) :
    let r := recv d s (((pre ++ m :: post).map encMsg).flatten)
    (∃ n, r.2 = .protocolError n) ∧
      ((∀ x ∈ pre, x.op.isUnbind = false) → r.2 = .protocolError .notice) ∧
      r.1.state = .closed ∧ r.1.outstanding = [] ∧ r.1.out = s.out ∧ r.1.residue = [] :=
  Proofs.C08More.recv_server_bind_wire d s pre m post hrole hs hres hwf hb ho

/-! ## 3. "once CLOSED … every later operation is rejected, produces no bytes and accepts no data" -/

/-- `receive` on a CLOSED session, exactly: the session value is returned unchanged — state
    CLOSED, `out` (no bytes produced), `outstanding`, `searches`, `residue` (no data accepted),
    counter, options all as before — and the call raises ProtocolError.

    About "produces no bytes": the raised error nevertheless CARRIES a notification as its
    `.response` attribute — a packed UnbindRequest from a client, a packed Notice of
    Disconnection from a server (`closedNotification`), because the `receive` wrappers of
    `LDAPClient` / `LDAPServer` attach one to every ProtocolError that was not caused by a
    received unbind / notice.  Those bytes are handed to the caller inside the exception; they
    are not queued: `data_to_send()` is unaffected (`out` is unchanged).  So the clause holds
    for the session's output queue, and the caller is offered a (redundant) notification each
    time it calls `receive` on a closed session. -/
theorem recv_closed (d : Nat) (s : Sess) (chunk : Bytes) (h : s.state = .closed) :
    recv d s chunk = (s, .protocolError (closedNotification s.role)) :=
  Proofs.C08More.recv_closed_exact d s chunk h

/-- the same as a `Call` of a history -/
theorem step_receive_closed (s : Sess) (chunk : Bytes) (h : s.state = .closed) :
    step s (.receive chunk) = (s, .protocolError (closedNotification s.role)) :=
  Proofs.C08More.step_receive_closed s chunk h

/-- `recv_closed` spelt out field by field (what the audit asked to be explicit) -/
theorem recv_closed_fields (d : Nat) (s : Sess) (chunk : Bytes) (h : s.state = .closed) :
    (recv d s chunk).2 = .protocolError (closedNotification s.role) ∧
      (recv d s chunk).1.state = .closed ∧ (recv d s chunk).1.out = s.out ∧
      (recv d s chunk).1.outstanding = s.outstanding ∧ (recv d s chunk).1.searches = s.searches ∧
      (recv d s chunk).1.residue = s.residue := by
  rw [recv_closed d s chunk h]; exact ⟨rfl, h, rfl, rfl, rfl, rfl⟩

/-- CLOSED is final for everything but the drain position and the packing options, over whole
    histories: whatever is called afterwards, the state stays CLOSED, the id sets, the input
    buffer and the id counter never change, and the output queue only ever shrinks (a suffix of
    what was queued at closure: nothing is ever appended). -/
theorem closed_history_frame (s : Sess) (cs : List Call) (h : s.state = .closed) :
    (run s cs).1.state = .closed ∧ (run s cs).1.outstanding = s.outstanding ∧
      (run s cs).1.searches = s.searches ∧ (run s cs).1.residue = s.residue ∧
      (run s cs).1.counter = s.counter ∧ (∃ k, (run s cs).1.out = s.out.drop k) :=
  Proofs.C08More.closed_run_frame s cs h

/-! ## non-vacuity -/

section Examples

/-- SearchRequest, message id 1, filter `(c=*)` -/
def sampleSearchReq : Bytes :=
  [48, 27, 2, 1, 1, 99, 22, 4, 0, 10, 1, 0, 10, 1, 0, 2, 1, 0, 2, 1, 0, 1, 1, 0, 135, 1, 99, 48, 0]
/-- BindRequest, message id 2, anonymous simple bind -/
def sampleBindReq : Bytes := [48, 12, 2, 1, 2, 96, 7, 2, 1, 3, 4, 0, 128, 0]

/-- a server history with four server response calls, one of them refused (unknown id 7) -/
def sampleHistory : List Call :=
  [.receive sampleSearchReq, .entry 1 [] [] [], .done 1 0 [] [] [],
   .receive sampleBindReq, .bindResponse 2 none 0 [] [] [], .bindResponse 7 none 0 [] [] []]

/-- the hypothesis of `refines_history'` holds for it (no call is made in BEFORE_OPEN after
    the first delivery) … -/
example : ∀ pre c post, sampleHistory = pre ++ c :: post →
    ¬KnownDeviation (run (Sess.init .server) pre).1 c := by
  rw [along_iff]
  refine ⟨fun h => ?_, fun h => ?_, fun h => ?_, fun h => ?_, fun h => ?_, fun h => ?_, trivial⟩
  · exact absurd h.2.2.1 (by decide)
  all_goals exact absurd h.2.1 (by decide)

/-- … whereas the hypothesis of the old `refines_history` fails for it (and for every history
    with a response call) -/
example : ¬(∀ s' c, Reachable s' → c ∈ sampleHistory → ¬KnownDeviation s' c) := fun h =>
  h (Sess.init .server) (.entry 1 [] [] []) (.init .server) (by simp [sampleHistory])
    ⟨rfl, rfl, rfl, by rfl⟩

/-- and the conclusion is about a live state -/
example : (run (Sess.init .server) sampleHistory).1.state = .opened := by decide
example : historyEvents (Sess.init .server) sampleHistory
    = [.traffic, .traffic, .traffic, .bindStart, .bindDone] := by decide

/-- the right-hand disjunct of `refines_history_exact` is real (so the exact equation cannot
    be had unconditionally): one refused response call on a fresh server -/
example : (run (Sess.init .server) [.done 1 0 [] [] []]).1.state = .opened ∧
    (historyEvents (Sess.init .server) [.done 1 0 [] [] []]).foldl specNext (Sess.init .server).state
      = .beforeOpen := by decide

/-- hypotheses of `recv_server_bind_needs_idle`: a server with search 1 outstanding is
    delivered a bind request -/
def busyServer : Sess := (run (Sess.init .server) [.receive sampleSearchReq]).1

example : busyServer.role = .server ∧ busyServer.state ≠ .closed ∧ busyServer.outstanding ≠ [] ∧
    parseLoop busyServer.regs 10 (busyServer.residue ++ sampleBindReq).length (busyServer.residue ++ sampleBindReq)
      = .ok ([] ++ ⟨2, .bindReq 3 [] (.simple []), []⟩ :: [], []) ∧
    IsBindRequest ⟨2, .bindReq 3 [] (.simple []), []⟩ := by
  refine ⟨by decide, by decide, by decide, by rfl, ⟨_, _, _, rfl⟩⟩
example : (recv 10 busyServer sampleBindReq).2 = .protocolError .notice := by rfl

/-- the second way to be busy: search and bind arrive in ONE delivery to a fresh server -/
example : (recv 10 (Sess.init .server) (sampleSearchReq ++ sampleBindReq)).2 = .protocolError .notice ∧
    (recv 10 (Sess.init .server) (sampleSearchReq ++ sampleBindReq)).1.state = .closed := ⟨by rfl, by rfl⟩

/-- hypotheses of `recv_server_bind_wire` -/
example : (∀ x ∈ ([] : List Msg) ++ (⟨2, .bindReq 3 [] (.simple []), []⟩ : Msg) :: [],
      x.WF busyServer.regs ∧ x.op.filterDepth < 10) ∧ busyServer.residue = [] := by
  refine ⟨?_, by decide⟩
  intro x hx
  simp only [List.nil_append, List.mem_singleton] at hx
  subst hx
  exact ⟨by simp [Msg.WF, Op.WF, Cred.WF, IsText, validUtf8, Control.WF], by decide⟩

/-- a closed session of each role: what `receive` then returns -/
def closedClient : Sess := (run (Sess.init .client) [.extended [49] none [], .unbind]).1
def closedServer : Sess := (recv 10 busyServer sampleBindReq).1

example : closedClient.state = .closed ∧ closedClient.out ≠ [] := by decide
example : (recv 10 closedClient [1, 2, 3]).2 = .protocolError .unbind := by
  rw [recv_closed _ _ _ (by decide)]; rfl
example : closedServer.state = .closed ∧ closedServer.searches = [1] := ⟨by rfl, by rfl⟩
example : (recv 10 closedServer [1, 2, 3]).2 = .protocolError .notice := by
  rw [recv_closed _ _ _ (by rfl)]; rfl

end Examples

end Verif.C08
