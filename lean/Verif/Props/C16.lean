/-
C16 — schema definitions survive conversion to text and back.
-/
import Verif.Spec.Rfc4512
import Verif.Proofs.SchemaGrammar
import Verif.Proofs.SchemaText

namespace Verif.C16
open Verif Verif.Schema Verif.Rfc4512

/-- the text form of a valid object-class description is a sentence of the RFC 4512 grammar
    denoting it … -/
theorem oc_text_is_sentence (d : ObjectClass) (h : ObjectClass.WF d) : OCSent d (ocToText d) :=
  Proofs.ocToText_sentence d h

/-- … hence parsing it yields the definition itself (every valid field combination, any
    description / extension strings) -/
theorem object_class (d : ObjectClass) (h : ObjectClass.WF d) : parseOC (ocToText d) = .ok d :=
  Proofs.parseOC_sentence d _ (oc_text_is_sentence d h)

theorem at_text_is_sentence (d : AttributeType) (h : AttributeType.WF d) : ATSent d (atToText d) :=
  Proofs.atToText_sentence d h

theorem attribute_type (d : AttributeType) (h : AttributeType.WF d) : parseAT (atToText d) = .ok d :=
  Proofs.parseAT_sentence d _ (at_text_is_sentence d h)

theorem dcr_text_is_sentence (d : DITContentRule) (h : DITContentRule.WF d) : DCRSent d (dcrToText d) :=
  Proofs.dcrToText_sentence d h

theorem dit_content_rule (d : DITContentRule) (h : DITContentRule.WF d) : parseDCR (dcrToText d) = .ok d :=
  Proofs.parseDCR_sentence d _ (dcr_text_is_sentence d h)

/-! non-vacuity: a description with quote, backslash, `|` and a non-ASCII character -/
example : parseOC (ocToText {
      oid := ofString "2.5.6.6", names := [ofString "person"], desc := some [97, 124, 39, 92, 233],
      sup := [ofString "top"], kind := 0, must := [ofString "sn", ofString "cn"],
      exts := [(ofString "ORIGIN", [ofString "RFC 4519"])] })
    = .ok {
      oid := ofString "2.5.6.6", names := [ofString "person"], desc := some [97, 124, 39, 92, 233],
      sup := [ofString "top"], kind := 0, must := [ofString "sn", ofString "cn"],
      exts := [(ofString "ORIGIN", [ofString "RFC 4519"])] } := by
  rfl

end Verif.C16
