/-
C08 — the session lifecycle follows the documented state machine; CLOSED is final.
-/
import Verif.Spec.SessionSpec
import Verif.Proofs.Session

namespace Verif.C08
open Verif

/-- Known finding F-C08c (pinned by the repository's own test
    `test_fail_server_responds_to_unknown_request`): a server response call that is refused
    while the session is still BEFORE_OPEN nevertheless moves it to OPENED. -/
def KnownDeviation (s : Sess) (c : Call) : Prop :=
  s.role = .server ∧ s.state = .beforeOpen ∧ c.respId.isSome = true ∧ (step s c).2 = .ldapError

/-- Refinement: for every reachable session and every call, the visible state after the call
    is what the documented automaton yields for the events of that call (computed from the
    call and its outcome only) — except in the one known deviation. -/
theorem refines (s : Sess) (c : Call) (hr : Reachable s) (hx : ¬KnownDeviation s c) :
    (step s c).1.state = (events s c (step s c).2).foldl specNext s.state :=
  Proofs.step_refines s c hr hx

/-- what happens in the known deviation -/
theorem known_deviation (s : Sess) (c : Call) (h : KnownDeviation s c) :
    (step s c).1.state = .opened ∧ (step s c).1.out = s.out :=
  Proofs.known_deviation s c h

/-- lifted to every history: the final state is the automaton's state after all events, as
    long as the known deviation does not occur along the way -/
theorem refines_history (s : Sess) (cs : List Call) (hr : Reachable s) :
    (∀ s' c, Reachable s' → c ∈ cs → ¬KnownDeviation s' c) →
    (run s cs).1.state = (historyEvents s cs).foldl specNext s.state :=
  Proofs.run_refines s cs hr

/-- CLOSED is final: every later operation keeps the state CLOSED; no call adds bytes;
    sends are rejected with the library error; receive raises ProtocolError and accepts no data -/
theorem closed_final (s : Sess) (c : Call) (h : s.state = .closed) :
    (step s c).1.state = .closed ∧
      (∃ k, (step s c).1.out = s.out.drop k) ∧
      (c.isSend = true → (step s c).2 = .ldapError ∨ (step s c).2 = .notApplicable) ∧
      (∀ chunk, c = .receive chunk →
        (∃ n, (step s c).2 = .protocolError n) ∧ (step s c).1.residue = s.residue) :=
  Proofs.closed_final s c h

theorem closed_forever (s : Sess) (cs : List Call) (h : s.state = .closed) :
    (run s cs).1.state = .closed :=
  Proofs.closed_forever s cs h

/-- a client cannot start a bind while other operations are outstanding: refused with the
    library error and nothing changes -/
theorem client_bind_needs_idle (s : Sess) (dn : Bytes) (cred : Cred) (cs : List Control)
    (hrole : s.role = .client) (ho : s.outstanding ≠ []) :
    step s (.bind dn cred cs) = (s, .ldapError) :=
  Proofs.client_bind_needs_idle s dn cred cs hrole ho

/-- a server that receives a bind request while operations are outstanding fails closed -/
theorem server_bind_needs_idle (s : Sess) (m : Msg) (ms : List Msg) (hrole : s.role = .server)
    (ho : s.outstanding ≠ []) (hb : ∃ v n c, m.op = .bindReq v n c) :
    ∃ s', processLoop s (m :: ms) = .protoErr s' false false :=
  Proofs.server_bind_needs_idle s m ms hrole ho hb

/-- while BINDING nothing but bind traffic, unbind or a notice of disconnection can be sent -/
theorem binding_restricts_sends (s : Sess) (c : Call) (m : Msg) (hb : s.state = .binding)
    (hs : c.isSend = true) (ha : (step s c).2.accepted = true) (hm : msgOf s c = some m) :
    allowedWhileBinding m.op = true :=
  Proofs.binding_restricts_sends s c m hb hs ha hm

/-- BINDING is left only through a bind response that is not saslBindInProgress, or a termination -/
theorem leaves_binding_only_on_bind_done (s : Sess) (c : Call) (hr : Reachable s) (hb : s.state = .binding)
    (hn : (step s c).1.state ≠ .binding) :
    (step s c).1.state = .closed ∨
      ((step s c).1.state = .opened ∧ .bindDone ∈ events s c (step s c).2) :=
  Proofs.leaves_binding s c hr hb hn

/-! non-vacuity: the known deviation is real, and a refinement instance on a live history -/
example : KnownDeviation (Sess.init .server) (.bindResponse 1 none 0 [] [] []) := by
  exact ⟨rfl, rfl, rfl, by rfl⟩
example : (run (Sess.init .client) [.bind [] (.simple []) [], .unbind, .extended [49] none []]).1.state = .closed := by decide

end Verif.C08
