/-
C13 — filter objects survive conversion to text and back (no filter injection).
-/
import Verif.Spec.FilterWF
import Verif.Proofs.FilterRoundTrip

namespace Verif.C13
open Verif

/-- For every filter tree in the text domain (`WFText`: any depth, any fan-out, arbitrary
    value octets) parsing the tree's text form yields the tree itself.  `depth` is the
    interpreter's recursion budget in nesting levels; any budget above the tree's depth works.
    The text is ASCII, so its scalar values are its octets. -/
theorem parse_toText (f : Filter) (depth : Nat) (h : f.WFText) (hd : Filter.depth f < depth) :
    parseFilterText depth (toText f) = .ok f :=
  Proofs.parse_toText f depth h hd

/-- the escaping step alone is inverted by the unescaping step, for every octet string -/
theorem unescape_escape (v : Bytes) (hb : IsBytes v) (fuel : Nat) (hf : (escapeValue v).length < fuel) :
    unescape fuel (escapeValue v) = some v :=
  Proofs.unescape_escapeValue v hb fuel hf

/-- every special octet of a value is escaped: what `escapeValue` writes is RFC 4515
    `valueencoding` made only of printable ASCII other than `( ) * \` and of `\hh` escapes —
    so no value content can close a parenthesis, start a sub-filter or add a wildcard.
    (Depends on the byte class of the library's escape pattern, regenerated into
    `Facts.escapedBytes` on every run.) -/
theorem escape_is_safe (v : Bytes) (hb : IsBytes v) : IsEscapedValue (escapeValue v) :=
  Proofs.escapeValue_safe v hb

/-- no filter injection, stated on the text: the text form of a tree in the domain is pure
    printable ASCII -/
theorem toText_ascii (f : Filter) (h : f.WFText) : ∀ b ∈ toText f, 32 ≤ b ∧ b < 127 :=
  Proofs.toText_ascii f h

/-! non-vacuity: a tree whose values try to inject structure -/
def sample : Filter :=
  .and [.eq [99, 110] [41, 40, 117, 105, 100, 61, 42],            -- cn = ")(uid=*"
        .not (.substr [99, 110] (some [42]) [[0], [92, 50, 97]] none),
        .ext (some [50, 46, 53]) none [255, 10] true]

example : sample.WFText ∧ Filter.depth sample < 4 := by
  refine ⟨?_, by decide⟩
  simp [sample, Filter.WFText, Filter.WFTexts, IsBytes]
  decide
example : parseFilterText 4 (toText sample) = .ok sample :=
  parse_toText sample 4 (by simp [sample, Filter.WFText, Filter.WFTexts, IsBytes]; decide) (by decide)

end Verif.C13
