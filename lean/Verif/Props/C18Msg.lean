/-
C18 (continued) — decoding one LDAP message from BER, step by step.

`Props/C18Decode.lean` bounds the number of CALLS of `LDAPFilter.unpack`, `Props/C18Recv.lean` the
decode attempts of one `receive`.  This file bounds the WORK inside `unpack_ldap_message`:
`Model/MsgSteps.lean` is the decoder of `Model/Msg.lean` (`decMsg` and everything it calls: header
reads, the reader methods, the peek/skip loops for trailing elements, controls with the nested
paged-results value, credentials, the recursive filter decoder, attribute and referral lists) in
which every function also returns the steps it performs.  The table of charges is at the head of
the model: one step per call of a reader primitive and per header octet inspected, `k` steps for
copying or decoding `k` content octets, one per loop iteration; slicing a `memoryview` is free.

Results, for EVERY input (well-formed or not), every recursion budget, every registration set:

* the counting decoder returns exactly what `decMsg` returns;
* in the unit-cost measure (`W = 0`: one step per executed loop iteration / per octet copied or
  decoded) the steps are at most `18·(n+1)`, `n` = octets of the reader's buffer — LINEAR.  Nothing
  is re-scanned: every octet is covered by one header (read at most three times: peek, re-peek,
  `_validate_tag`) or is content that is copied / decoded / compared a bounded number of times;
  nested filters and controls are decoded from `memoryview` slices of their parent's content.
  The same bound holds for the whole parse loop of one `receive` over a buffer of several
  messages (`recv_steps_linear`): each message is decoded from its own octets.
* FINDING (precise form of the only super-linear component).  Two loops accumulate a Python `int`
  octet by octet — `int_value = (int_value << 8) | val` in `_read_asn1_integer` (asn1.py:837-838)
  and `i = (i << 7) + …` in `_unpack_asn1_octet_number` (asn1.py:916-925, tag numbers ≥ 31).
  Every iteration allocates a new integer of the current size, so in machine words these loops are
  QUADRATIC in the number of INTEGER content octets / tag-number octets, although they are linear
  in executed lines.  The weight `W` charges iteration `idx` additionally `W·idx`.  With `W = 1`
  the bound is `18·(n+1) + 3·(n+1)²`, and it is attained up to the constant: an INTEGER of `k`
  content octets costs exactly `k(k-1)/2` more steps than with `W = 0` (`accSteps_exact`, examples
  below; measured on CPython 3.11: a 160 kB messageID or tag number takes 4–5 s, doubling the
  length quadruples the time).  This is polynomial, so C18 holds; it is the one place where the
  decoder is not linear.

Fidelity caveat (second statement audit, A1): for an unknown protocolOp / filter / credential choice whose tag NUMBER has about 2041 or more
octets CPython >= 3.11 raises ValueError (the f-string of the NotImplementedError message hits the int -> str digit limit) where `decMsg` returns
`.notImpl`; `receive` maps both classes to ProtocolError.  "Same result" below is about `decMsg`.  Not charged: the text of error messages
(decimal printing of k-octet numbers), and the buffer copies `receive` makes around the parse loop (quadratic for octet-by-octet delivery).
-/
import Verif.Model.MsgSteps
import Verif.Proofs.MsgStepsBound

namespace Verif.C18
open Verif Verif.MsgSteps

/-- 1. the counting decoder computes exactly the decoder's result (for every weight `W`) -/
theorem msg_steps_same_result (W : Nat) (regs : Regs) (depth : Nat) (bs : Bytes) :
    (decMsgS W regs depth bs).res = decMsg regs depth bs :=
  Proofs.MsgSteps.msg_steps_same_result W regs depth bs

/-- 2. unit cost: at most `18·(n+1)` steps, for all inputs -/
theorem msg_steps_linear (regs : Regs) (depth : Nat) (bs : Bytes) :
    (decMsgS 0 regs depth bs).steps ≤ 18 * (bs.length + 1) :=
  Proofs.MsgSteps.msg_steps_linear regs depth bs

/-- 2'. with big-integer arithmetic weighted `W` per octet of the operand: the true bound -/
theorem msg_steps_quadratic (W : Nat) (regs : Regs) (depth : Nat) (bs : Bytes) :
    (decMsgS W regs depth bs).steps ≤ 18 * (bs.length + 1) + 3 * W * (bs.length + 1) ^ 2 :=
  Proofs.MsgSteps.msg_steps_quadratic W regs depth bs

/-- sharp form of both: `18n + 3·W·n² + 6` -/
theorem msg_steps_bound (W : Nat) (regs : Regs) (depth : Nat) (bs : Bytes) :
    (decMsgS W regs depth bs).steps ≤ 18 * bs.length + 3 * (W * bs.length * bs.length) + 6 :=
  Proofs.MsgSteps.msg_steps_pot W regs depth bs

/-- 3. a whole `receive`: the counting parse loop returns what `parseLoop` returns … -/
theorem recv_steps_same_result (W : Nat) (regs : Regs) (depth fuel : Nat) (bs : Bytes) :
    (parseLoopS W regs depth fuel bs).res = parseLoop regs depth fuel bs :=
  Proofs.MsgSteps.recv_steps_same_result W regs depth fuel bs

/-- … and all decode attempts on a buffer holding any number of messages (and an incomplete or
    malformed tail) cost at most `18·(n+1)` steps together -/
theorem recv_steps_linear (regs : Regs) (depth fuel : Nat) (bs : Bytes) :
    (parseLoopS 0 regs depth fuel bs).steps ≤ 18 * (bs.length + 1) :=
  Proofs.MsgSteps.recv_steps_linear regs depth fuel bs

theorem recv_steps_quadratic (W : Nat) (regs : Regs) (depth fuel : Nat) (bs : Bytes) :
    (parseLoopS W regs depth fuel bs).steps ≤
      18 * (bs.length + 1) + 3 * W * (bs.length + 1) ^ 2 :=
  Proofs.MsgSteps.recv_steps_quadratic W regs depth fuel bs

/-- components: `LDAPFilter.unpack` alone, one control, one header read -/
theorem ber_filter_steps_same_result (W : Nat) (regs : Regs) (depth : Nat) (bs : Bytes) :
    (decFilterS W regs depth bs).res = decFilter regs depth bs :=
  Proofs.MsgSteps.ber_filter_steps_same_result W regs depth bs

theorem ber_filter_steps_linear (regs : Regs) (depth : Nat) (bs : Bytes) :
    (decFilterS 0 regs depth bs).steps ≤ 17 * (bs.length + 1) :=
  Proofs.MsgSteps.ber_filter_steps_linear regs depth bs

theorem control_steps_linear (regs : Regs) (bs : Bytes) :
    (decControlS 0 regs bs).steps ≤ 18 * (bs.length + 1) :=
  Proofs.MsgSteps.control_steps_linear regs bs

theorem header_steps (W : Nat) (bs : Bytes) :
    (readHeaderS W bs).steps ≤ 2 * bs.length + 3 + W * bs.length * bs.length :=
  Proofs.MsgSteps.header_steps W bs

/-- the big-integer loops exactly: `n` iterations from the empty integer cost `n + W·n(n-1)/2` -/
theorem bigint_loop_exact (W n : Nat) :
    2 * accSteps W n 0 + W * n = 2 * n + W * (n * n) := by
  have := Proofs.MsgSteps.accSteps_exact W n 0
  simpa using this

/-- … and that loop is part of every `read_integer` with non-empty content -/
theorem read_integer_contains_loop (W extra b0 : Nat) (t : Bytes) :
    accSteps W (b0 :: t).length 0 ≤ intSteps W extra (b0 :: t) :=
  Proofs.MsgSteps.intSteps_lower W extra b0 t

/-- 4. numeric instances: a 1000-octet buffer costs at most 18 018 unit steps, whatever it holds;
    with the big-integer weight at most 3 024 021 -/
example (regs : Regs) (depth : Nat) (bs : Bytes) (h : bs.length = 1000) :
    (decMsgS 0 regs depth bs).steps ≤ 18018 := by
  have := msg_steps_linear regs depth bs
  omega

example (regs : Regs) (depth : Nat) (bs : Bytes) (h : bs.length = 1000) :
    (decMsgS 1 regs depth bs).steps ≤ 3024021 := by
  have := msg_steps_quadratic 1 regs depth bs
  rw [h] at this
  exact this

/-! ### non-vacuity and tightness -/

/-- growing families, unit cost: the steps grow by a constant per added element — 5 per trailing
    unknown element, 19 per nested NOT, 32.5 per operand of an AND, 42 per attribute of four
    values, 183.5 per paged-results control -/
example : (decMsgS 0 {} 100 (trailingMsg 10)).steps = 71 := by decide +kernel
example : (decMsgS 0 {} 100 (trailingMsg 20)).steps = 121 := by decide +kernel
example : (decMsgS 0 {} 100 (nestedNotMsg 10)).steps = 286 := by decide +kernel
example : (decMsgS 0 {} 100 (nestedNotMsg 20)).steps = 476 := by decide +kernel
example : (decMsgS 0 {} 100 (wideAndMsg 10)).steps = 405 := by decide +kernel
example : (decMsgS 0 {} 100 (wideAndMsg 20)).steps = 730 := by decide +kernel
example : (decMsgS 0 {} 100 (entryMsg 4 4)).steps = 196 := by decide +kernel
example : (decMsgS 0 {} 100 (entryMsg 8 4)).steps = 364 := by decide +kernel
example : (decMsgS 0 {} 100 (controlsMsg 4)).steps = 761 := by decide +kernel
example : (decMsgS 0 {} 100 (controlsMsg 8)).steps = 1495 := by decide +kernel

/-- the recursion budget exhausted: still counted, still the decoder's result -/
example : (decMsgS 0 {} 5 (nestedNotMsg 10)).res = .error .recursion := by rfl
example : (decMsgS 0 {} 5 (nestedNotMsg 10)).steps ≤ 18 * ((nestedNotMsg 10).length + 1) :=
  msg_steps_linear _ _ _

/-- the quadratic term is attained with `W = 1`: a messageID of `k` content octets costs
    `k(k-1)/2` more than at unit cost (120, 496, 2016 for k = 16, 32, 64) … -/
example : (decMsgS 0 {} 100 (bigIdMsg 16)).steps = 51 := by decide +kernel
example : (decMsgS 1 {} 100 (bigIdMsg 16)).steps = 51 + 120 := by decide +kernel
example : (decMsgS 0 {} 100 (bigIdMsg 32)).steps = 83 := by decide +kernel
example : (decMsgS 1 {} 100 (bigIdMsg 32)).steps = 83 + 496 := by decide +kernel
example : (decMsgS 1 {} 100 (bigIdMsg 64)).steps = 147 + 2016 := by decide +kernel

/-- … and so does a tag number of `k + 1` octets on a skipped trailing element -/
example : (decMsgS 0 {} 100 (longTagMsg 16)).steps = 60 := by decide +kernel
example : (decMsgS 1 {} 100 (longTagMsg 16)).steps = 60 + 136 := by decide +kernel
example : (decMsgS 1 {} 100 (longTagMsg 32)).steps = 92 + 528 := by decide +kernel

/-- two UnbindRequests (21 steps each) and one octet of a third message in one buffer -/
example : (decMsgS 0 {} 50 [0x30, 5, 2, 1, 1, 0x62, 0]).steps = 21 := by decide +kernel
example : (parseLoopS 0 {} 50 15 [0x30, 5, 2, 1, 1, 0x62, 0, 0x30, 5, 2, 1, 2, 0x62, 0, 0x30]).steps = 49 := by
  decide +kernel

end Verif.C18
