/-
C10 / C08 — acceptance theorems and the history-level meaning of "currently outstanding".

The theorems of Props/C08.lean, C10.lean and C12.lean are safety statements ("if a call is
accepted then …", "a refused call does not …"); a model that refuses every send satisfies all
of them.  This file adds the converse direction:

  1. exactly which server response calls are accepted (`response_accepted_iff`) and what an
     accepted / a refused one does;
  2. exactly which client request calls are accepted (`client_call_accepted_iff`), that an
     accepted one returns the next message id (`client_request_accepted`, `client_next_id`),
     `client_bind_accepted`, and the same for unbind;
  3. a characterisation of the server's set of outstanding requests in terms of the calls
     and outcomes of the history only (`server_outstanding_char`), which turns the
     `id ∈ s.outstanding` of C10 into "request `id` was delivered and not finally answered".

The vocabulary (call kinds, `Delivers`, `Retires`, `OpenIn`, `terminates`, `Abandoned`) is in
Spec/C10More.lean and is written from the property texts and RFC 4511, not from the model.
-/
import Verif.Spec.C10More
import Verif.Props.C10
import Verif.Proofs.C10More

/-! ## C10 — servers answer only open requests: which response calls ARE accepted -/

namespace Verif.C10
open Verif Verif.C10More

/-- C10 "a server session emits a response only for a request that is currently outstanding"
    together with C08 "once CLOSED every later operation is rejected" and "while BINDING
    nothing but bind traffic or a termination can be sent" — as an EXACT criterion.
    A response call (any of the five kinds) carrying id `id` is accepted iff the session is
    not closed, it is a bind response or a notice of disconnection if a bind is in progress,
    and `id` is outstanding.  There is NO further condition in the library: in particular
    the response kind is not matched against the kind of the request (a `done` for an
    outstanding extended request is accepted; checked with `#eval`, see the example below). -/
theorem response_accepted_iff (s : Sess) (c : Call) (id : Int) (hrole : s.role = .server)
    (hid : c.respId = some id) :
    (step s c).2.accepted = true ↔
      s.state ≠ .closed ∧ (s.state = .binding → responseAllowedWhileBinding c = true) ∧
        id ∈ s.outstanding :=
  Proofs.C10More.response_accepted_iff s c id hrole hid

/-- the spec-level binding restriction used above is the gate the library applies to the
    message of the call (`allowedWhileBinding` of the model, used by `C08.binding_restricts_sends`) -/
theorem responseAllowedWhileBinding_eq (s : Sess) (c : Call) (m : Msg) (id : Int)
    (hid : c.respId = some id) (hm : msgOf s c = some m) :
    allowedWhileBinding m.op = responseAllowedWhileBinding c :=
  Proofs.C10More.allowed_resp s c m id hid hm

/-- an accepted response returns the id it was called with, appends exactly the encoding of
    its message, and removes `id` from the outstanding set iff it is a final response -/
theorem response_accepted_effect (s : Sess) (c : Call) (id : Int) (hrole : s.role = .server)
    (hid : c.respId = some id) (ha : (step s c).2.accepted = true) :
    (step s c).2 = .sent id ∧
    ∃ m, msgOf s c = some m ∧ m.id = id ∧ (step s c).1.out = s.out ++ encMsg m ∧
      (∀ i, i ∈ (step s c).1.outstanding ↔
        i ∈ s.outstanding ∧ ¬(isFinalResponse c = true ∧ i = id)) :=
  Proofs.C10More.response_accepted_effect s c id hrole hid ha

/-- C10 "a refused call … fails only with the library's own error type", sharpened for
    responses: a refused response call raises the library error and changes NOTHING in the
    session (buffers, bookkeeping, counter) except — known finding F-C08c, pinned by the
    repository's tests — that a session still BEFORE_OPEN becomes OPENED.  (When the refusal
    is for the CLOSED or BINDING reason the state is not BEFORE_OPEN, so the `if` is the
    identity and the session is literally unchanged.) -/
theorem response_refused_effect (s : Sess) (c : Call) (id : Int) (hrole : s.role = .server)
    (hid : c.respId = some id) (ha : (step s c).2.accepted = false) :
    (step s c).2 = .ldapError ∧
    (step s c).1 = { s with state := if s.state = .beforeOpen then .opened else s.state } :=
  Proofs.C10More.response_refused_effect s c id hrole hid ha

/-- C10 "currently outstanding", characterised from the history alone.  For every history of
    calls and deliveries on a fresh server session, `i` is in the outstanding set at the end
    iff
      * some `receive` returned (in its message list) a request with id `i`, and no LATER call
        is an accepted final response carrying `i` (`OpenIn`), and
      * the session was not ended by an unbind or a protocol error (`Abandoned`: the FIRST
        terminating step is one of those; both drop every outstanding operation).
    `observed cs os` pairs each call with its outcome; `OpenIn`, `Abandoned` look at nothing else.

    Why the second conjunct and why "first": a notice of disconnection closes the session but
    only retires its own id, and a closed session is frozen, so `[receive ⟨1⟩⟨2⟩, notice 2,
    receive …]` ends with `1` still in the set although the last receive raises ProtocolError
    (second example below). -/
theorem server_outstanding_char (cs : List Call) (i : Int) :
    i ∈ (run (Sess.init .server) cs).1.outstanding ↔
      OpenIn (observed cs (run (Sess.init .server) cs).2) i ∧
        ¬Abandoned (observed cs (run (Sess.init .server) cs).2) :=
  Proofs.C10More.server_outstanding_char cs i

/-- the same from an arbitrary live server state (what `server_outstanding_char` is the
    `Sess.init` instance of): ids already outstanding stay until retired -/
theorem server_outstanding_char_from (s : Sess) (cs : List Call) (hrole : s.role = .server)
    (hs : s.state ≠ .closed) (i : Int) :
    i ∈ (run s cs).1.outstanding ↔
      ((i ∈ s.outstanding ∧ ∀ e ∈ observed cs (run s cs).2, ¬Retires e i) ∨
          OpenIn (observed cs (run s cs).2) i) ∧
        ¬Abandoned (observed cs (run s cs).2) :=
  (Proofs.C10More.live_run cs s hrole hs).2 i

/-- hypotheses of `server_outstanding_char_from` on a non-trivial state: 5 and 7 outstanding,
    `done 5` retires 5 only -/
example :
    let s : Sess := { role := .server, state := .opened, outstanding := [5, 7], searches := [5] }
    s.state ≠ .closed ∧ (run s [.entry 5 [] [] [], .done 5 0 [] [] []]).1.outstanding = [7] := by decide

/-- as long as the session has not been closed, the proposal of the audit holds verbatim:
    outstanding = delivered and not finally answered since -/
theorem server_outstanding_char_live (cs : List Call) (i : Int)
    (hs : (run (Sess.init .server) cs).1.state ≠ .closed) :
    i ∈ (run (Sess.init .server) cs).1.outstanding ↔
      OpenIn (observed cs (run (Sess.init .server) cs).2) i :=
  Proofs.C10More.server_outstanding_char_live cs i hs

/-- `response_accepted_iff` with the internal set replaced by its history-level meaning:
    after any history, a response call is accepted iff the session is not closed, the binding
    restriction holds, and the request was delivered and not finally answered -/
theorem response_accepted_history_iff (cs : List Call) (c : Call) (id : Int)
    (hid : c.respId = some id) :
    (step (run (Sess.init .server) cs).1 c).2.accepted = true ↔
      (run (Sess.init .server) cs).1.state ≠ .closed ∧
      ((run (Sess.init .server) cs).1.state = .binding → responseAllowedWhileBinding c = true) ∧
      OpenIn (observed cs (run (Sess.init .server) cs).2) id :=
  Proofs.C10More.response_accepted_history_iff cs c id hid

/-- the classifier of this file is the one of Props/C10.lean -/
theorem isFinalResponse_eq (c : Call) : isFinalResponse c = isFinalResp c := by
  cases c <;> rfl

/-! non-vacuity -/

/-- two requests (search id 1, extended id 2) in one delivery -/
def reqs : Bytes := encMsg ⟨1, .searchReq [] 0 0 0 0 false (.present [99, 110]) [], []⟩ ++
  encMsg ⟨2, .extReq [49, 46, 50] none, []⟩

/-- `response_accepted_iff`, both sides true: a live server with 5 outstanding accepts every
    kind of response for 5 (no kind matching), and refuses all of them for 6 -/
example :
    let s : Sess := { role := .server, state := .opened, outstanding := [5] }
    (step s (.done 5 0 [] [] [])).2.accepted = true ∧ (step s (.entry 5 [] [] [])).2.accepted = true ∧
      (step s (.bindResponse 5 none 0 [] [] [])).2.accepted = true ∧
      (step s (.done 6 0 [] [] [])).2.accepted = false := by decide

/-- the binding restriction is real: while BINDING a `done` for an outstanding id is refused,
    a bind response and a notice of disconnection are accepted -/
example :
    let s : Sess := { role := .server, state := .binding, outstanding := [5] }
    (step s (.done 5 0 [] [] [])).2.accepted = false ∧
      (step s (.bindResponse 5 none 0 [] [] [])).2.accepted = true ∧
      (step s (.extendedResponse 5 (some Facts.oidNotice) none 52 [] [] [])).2.accepted = true := by
  decide

/-- a history with a delivery, an entry, a final response and a second (refused) final
    response: 2 is still open, 1 is not; the session is live, so the hypothesis of
    `server_outstanding_char_live` is satisfiable by a non-trivial history -/
example :
    let cs : List Call := [.receive reqs, .entry 1 [] [] [], .done 1 0 [] [] [], .done 1 0 [] [] []]
    (run (Sess.init .server) cs).1.outstanding = [2] ∧ (run (Sess.init .server) cs).1.state = .opened ∧
      (run (Sess.init .server) cs).2.map Outcome.accepted = [false, true, true, false] := by
  decide

/-- the case that forces `Abandoned` to look at the FIRST termination: after a notice of
    disconnection for 2, request 1 stays in the set although `receive` then raises; by
    `server_outstanding_char` the history is not `Abandoned` and 1 is `OpenIn` it -/
def noticeHistory : List Call :=
  [.receive reqs, .extendedResponse 2 (some Facts.oidNotice) none 52 [] [] [], .receive []]

example :
    (run (Sess.init .server) noticeHistory).1.outstanding = [1] ∧
      (run (Sess.init .server) noticeHistory).1.state = .closed ∧
      (run (Sess.init .server) noticeHistory).2.map Outcome.accepted = [false, true, false] ∧
      OpenIn (observed noticeHistory (run (Sess.init .server) noticeHistory).2) 1 ∧
      ¬Abandoned (observed noticeHistory (run (Sess.init .server) noticeHistory).2) :=
  ⟨by decide, by decide, by decide, (server_outstanding_char noticeHistory 1).1 (by decide)⟩

/-- `OpenIn` is satisfiable on a live history (obtained through `server_outstanding_char_live`,
    whose hypothesis holds here), and fails for the retired id -/
example :
    let cs : List Call := [.receive reqs, .done 1 0 [] [] []]
    OpenIn (observed cs (run (Sess.init .server) cs).2) 2 ∧
      ¬OpenIn (observed cs (run (Sess.init .server) cs).2) 1 :=
  ⟨(server_outstanding_char_live _ 2 (by decide)).1 (by decide),
   fun h => absurd ((server_outstanding_char_live _ 1 (by decide)).2 h) (by decide)⟩

/-- an `Abandoned` history: unbind after a delivery empties the set -/
example :
    let cs : List Call := [.receive reqs, .unbind]
    (run (Sess.init .server) cs).1.outstanding = [] ∧
      (run (Sess.init .server) cs).2.map Outcome.accepted = [false, true] := by decide

end Verif.C10

/-! ## C08 — which client calls are accepted; the id they return -/

namespace Verif.C08
open Verif Verif.C10More

/-- C08 for the client's request calls, as an EXACT criterion.  A request call (bind,
    search, extended) on a client session is accepted iff
      * the session is not CLOSED,
      * if a bind is in progress (BINDING) the call is itself a bind request ("while BINDING
        nothing but bind traffic or a termination can be sent"; the next step of a SASL bind),
      * if the call is a bind, no operation is outstanding ("a bind cannot start while other
        operations are outstanding").
    Nothing else can make the library refuse the call (arguments are already bytes in the
    model, so pack-time failures of un-encodable `str` arguments are outside it). -/
theorem client_call_accepted_iff (s : Sess) (c : Call) (hrole : s.role = .client)
    (hc : isRequestCall c = true) :
    (step s c).2.accepted = true ↔
      s.state ≠ .closed ∧ (s.state = .binding → isBindRequest c = true) ∧
        (isBindRequest c = true → s.outstanding = []) :=
  Proofs.C10More.client_call_accepted_iff s c hrole hc

/-- an admissible request call returns `.sent id` where `id` is the session's next message
    id, advances the counter by one, records the id as outstanding, puts exactly the encoding
    of its message (which carries that id) on the wire, and moves the state as documented -/
theorem client_request_accepted (s : Sess) (c : Call) (hrole : s.role = .client)
    (hc : isRequestCall c = true) (hs : s.state ≠ .closed)
    (hb : s.state = .binding → isBindRequest c = true)
    (ho : isBindRequest c = true → s.outstanding = []) :
    (step s c).2 = .sent s.counter ∧
    (step s c).1.counter = s.counter + 1 ∧
    (∀ i, i ∈ (step s c).1.outstanding ↔ i = s.counter ∨ i ∈ s.outstanding) ∧
    (step s c).1.state = (if isBindRequest c then .binding
                          else if s.state = .beforeOpen then .opened else s.state) ∧
    ∃ m, msgOf s c = some m ∧ m.id = s.counter ∧ (step s c).1.out = s.out ++ encMsg m :=
  Proofs.C10More.client_request_accepted s c hrole hc hs hb ho

/-- "the next id" without reference to the internal counter: after ANY history on a fresh
    client, an accepted request call returns `first + n` where `n` is the number of ids handed
    out so far (`issuedIds`, the ids returned by earlier accepted request calls) -/
theorem client_next_id (cs : List Call) (c : Call) (hc : isRequestCall c = true)
    (ha : (step (run (Sess.init .client) cs).1 c).2.accepted = true) :
    (step (run (Sess.init .client) cs).1 c).2 =
      .sent (Facts.firstMessageId + ((issuedIds (Sess.init .client) cs).length : Int)) :=
  Proofs.C10More.client_next_id cs c hc ha

/-- a refused request call fails with the library error and leaves the whole session
    (state, counter, bookkeeping, buffers) exactly as it was -/
theorem client_request_refused (s : Sess) (c : Call) (hrole : s.role = .client)
    (hc : isRequestCall c = true) (ha : (step s c).2.accepted = false) :
    step s c = (s, .ldapError) :=
  Proofs.C10More.client_request_refused s c hrole hc ha

/-- the converse of `client_bind_needs_idle`: a bind on a client that is not closed and has
    nothing outstanding IS accepted (also while BINDING: SASL continuation), returns the next
    id and puts the session into BINDING -/
theorem client_bind_accepted (s : Sess) (dn : Bytes) (cred : Cred) (cs : List Control)
    (hrole : s.role = .client) (hs : s.state ≠ .closed) (ho : s.outstanding = []) :
    (step s (.bind dn cred cs)).2 = .sent s.counter ∧ (step s (.bind dn cred cs)).1.state = .binding :=
  Proofs.C10More.client_bind_accepted s dn cred cs hrole hs ho

/-- unbind (either role) is accepted iff the session is not closed … -/
theorem unbind_accepted_iff (s : Sess) :
    (step s .unbind).2.accepted = true ↔ s.state ≠ .closed :=
  Proofs.C10More.unbind_accepted_iff s

/-- … and then sends the UnbindRequest (message id 0), closes the session and abandons
    everything outstanding -/
theorem unbind_accepted_effect (s : Sess) (hs : s.state ≠ .closed) :
    (step s .unbind).2 = .unit ∧ (step s .unbind).1.state = .closed ∧
      (step s .unbind).1.out = s.out ++ encMsg ⟨0, .unbind, []⟩ ∧ (step s .unbind).1.outstanding = [] :=
  Proofs.C10More.unbind_accepted_effect s hs

/-- the remaining combinations: a request call on a server session and a response call on a
    client session do not exist (`AttributeError` in Python); nothing changes -/
theorem send_wrong_role (s : Sess) (c : Call)
    (h : (isRequestCall c = true ∧ s.role = .server) ∨ (isResponseCall c = true ∧ s.role = .client)) :
    step s c = (s, .notApplicable) :=
  Proofs.C10More.send_wrong_role s c h

/-- the spec-level binding restriction for requests is the gate the library applies -/
theorem requestAllowedWhileBinding_eq (s : Sess) (c : Call) (m : Msg) (hc : isRequestCall c = true)
    (hm : msgOf s c = some m) : allowedWhileBinding m.op = isBindRequest c :=
  Proofs.C10More.allowed_req s c m (by rw [Proofs.C10More.isClientReq_eq]; exact hc) hm

/-- CLOSED, from the history alone: a fresh server session is closed at the end of a history
    iff some step of it was a termination (accepted unbind, accepted notice of disconnection,
    ProtocolError from `receive`) — so "not closed" in the criteria above can be read off the
    calls and outcomes -/
theorem server_closed_iff_terminated (cs : List Call) :
    (run (Sess.init .server) cs).1.state = .closed ↔
      ∃ e ∈ observed cs (run (Sess.init .server) cs).2, terminates e = true :=
  Proofs.C10More.server_closed_iff_terminated cs

/-! non-vacuity -/

/-- the id a call returned, for the examples (`Outcome` has no decidable equality) -/
def sentId : Outcome → Option Int
  | .sent i => some i
  | _ => none

/-- the three conjuncts of `client_call_accepted_iff` are independent: a fresh client accepts
    each request kind; with an operation outstanding a search is accepted and a bind is not;
    while BINDING (bind sent, then `saslBindInProgress` received: nothing outstanding) a
    second bind is accepted and a search is not -/
example :
    let s0 := Sess.init .client
    let s1 := (step s0 (.search [] 0 0 0 0 false none [] [])).1
    sentId (step s0 (.bind [] (.simple []) [])).2 = some 1 ∧
      sentId (step s0 (.extended [49] none [])).2 = some 1 ∧
      sentId (step s1 (.search [] 0 0 0 0 false none [] [])).2 = some 2 ∧
      (step s1 (.bind [] (.simple []) [])).2.accepted = false := by decide

example :
    let cs : List Call := [.bind [] (.simple []) [],
      .receive (encMsg ⟨1, .bindResp ⟨14, [], [], none⟩ none, []⟩)]
    let s := (run (Sess.init .client) cs).1
    s.state = .binding ∧ s.outstanding = [] ∧
      sentId (step s (.bind [] (.simple []) [])).2 = some 2 ∧
      (step s (.search [] 0 0 0 0 false none [] [])).2.accepted = false := by decide

/-- `client_next_id` on a history with a refused call in the middle -/
example :
    let cs : List Call := [.search [] 0 0 0 0 false none [] [], .bind [] (.simple []) [], .extended [49] none []]
    issuedIds (Sess.init .client) cs = [1, 2] ∧
      sentId (step (run (Sess.init .client) cs).1 (.extended [49] none [])).2 = some 3 := by decide

example : (step (Sess.init .server) .unbind).2.accepted = true ∧
    (step (step (Sess.init .server) .unbind).1 .unbind).2.accepted = false := by decide

end Verif.C08
