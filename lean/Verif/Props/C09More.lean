/-
C09 (additions) — the client's search set is pinned, ids are fresh, and `receive` on a WHOLE
delivery (several messages in one chunk) agrees with the id rule of the property text.

Closes the statement-audit items for C09:
  2. nothing said which ids are in `searches` (who enters, who leaves);
  3. the only `recv`-level theorem was restricted to a one-message delivery and had no converse.

The id rule itself (`AcceptAll`, `afterResponse`, `afterAll`) is in Spec/C09More.lean and does not
mention the model's `clientProcess` / `processLoop`.

The model's `Call` type has exactly three client request kinds (`bind`, `search`, `extended`) and
one request that expects no response (`unbind`); add / delete / modify / modifyDn / compare /
abandon and the IntermediateResponse message do not exist in it, so the statements below quantify
over every `Call` constructor there is.
-/
import Verif.Spec.C09More
import Verif.Spec.SessionSpec
import Verif.Proofs.C09More

namespace Verif.C09
open Verif

/-! ### ids in progress are ids that were handed out (freshness) -/

/-- "positive, strictly increasing, never reused", as a state invariant of every reachable client
    (open or closed): every id in progress or registered as a search lies in `[first, next)`, where
    `next = s.counter` is the id the next accepted request will get.  In particular id 0 and ids
    never issued are not in progress, and the next id is not in progress. -/
theorem ids_fresh (s : Sess) (hr : Reachable s) (hrole : s.role = .client) :
    Facts.firstMessageId ≤ s.counter ∧
    (∀ i ∈ s.outstanding, Facts.firstMessageId ≤ i ∧ i < s.counter) ∧
    (∀ i ∈ s.searches, Facts.firstMessageId ≤ i ∧ i < s.counter) :=
  Proofs.C09More.ids_fresh s hr hrole

/-- the id about to be handed out is neither a search nor outstanding (the freshness fact that
    `nonsearch_not_registered` needs) -/
theorem next_id_fresh (s : Sess) (hr : Reachable s) (hrole : s.role = .client) :
    s.counter ∉ s.searches ∧ s.counter ∉ s.outstanding :=
  Proofs.C09More.next_id_fresh s hr hrole

/-! ### audit item 2a: who enters the search set -/

/-- a `.search` call that returns `.sent id` puts `id` in both `searches` and `outstanding`, and
    changes nothing else in either set.  Holds for ANY client session (no reachability needed). -/
theorem search_registers (s : Sess) (c : Call) (id : Int) (hrole : s.role = .client)
    (hc : isSearchCall c = true) (h : (step s c).2 = .sent id) :
    id ∈ (step s c).1.searches ∧ id ∈ (step s c).1.outstanding ∧
    (∀ j, j ∈ (step s c).1.searches ↔ (j = id ∨ j ∈ s.searches)) ∧
    (∀ j, j ∈ (step s c).1.outstanding ↔ (j = id ∨ j ∈ s.outstanding)) :=
  Proofs.C09More.search_registers s c id hrole hc h

/-- every OTHER call that returns `.sent id` on a reachable client (i.e. `bind` and `extended`;
    no other constructor of `Call` can return `.sent` on a client) leaves the search set exactly
    as it was, its id is NOT a search afterwards (ids are fresh: `ids_fresh`), and it IS
    outstanding. -/
theorem nonsearch_not_registered (s : Sess) (c : Call) (id : Int) (hr : Reachable s)
    (hrole : s.role = .client) (hc : isSearchCall c = false) (h : (step s c).2 = .sent id) :
    id ∉ (step s c).1.searches ∧ id ∈ (step s c).1.outstanding ∧
    (step s c).1.searches = s.searches ∧
    (∀ j, j ∈ (step s c).1.outstanding ↔ (j = id ∨ j ∈ s.outstanding)) :=
  Proofs.C09More.nonsearch_not_registered s c id hr hrole hc h

/-- the two instances of `nonsearch_not_registered`, spelled out -/
theorem bind_not_registered (s : Sess) (dn : Bytes) (cred : Cred) (cs : List Control) (id : Int)
    (hr : Reachable s) (hrole : s.role = .client) (h : (step s (.bind dn cred cs)).2 = .sent id) :
    id ∉ (step s (.bind dn cred cs)).1.searches ∧ id ∈ (step s (.bind dn cred cs)).1.outstanding :=
  let t := Proofs.C09More.nonsearch_not_registered s (.bind dn cred cs) id hr hrole rfl h
  ⟨t.1, t.2.1⟩

theorem extended_not_registered (s : Sess) (n : Bytes) (v : Option Bytes) (cs : List Control) (id : Int)
    (hr : Reachable s) (hrole : s.role = .client) (h : (step s (.extended n v cs)).2 = .sent id) :
    id ∉ (step s (.extended n v cs)).1.searches ∧ id ∈ (step s (.extended n v cs)).1.outstanding :=
  let t := Proofs.C09More.nonsearch_not_registered s (.extended n v cs) id hr hrole rfl h
  ⟨t.1, t.2.1⟩

/-- the request that expects no response: an accepted `unbind` (outcome `.unit`, it returns no id)
    registers nothing — it empties `outstanding`, closes the session, leaves `searches` and the id
    counter untouched; a refused one (only on a closed session) changes nothing at all.
    (`abandon` does not exist in the model's `Call`.) -/
theorem unbind_effect (s : Sess) :
    ((step s .unbind).2 = .unit ∧ s.state ≠ .closed ∧ (step s .unbind).1.state = .closed ∧
        (step s .unbind).1.outstanding = [] ∧ (step s .unbind).1.searches = s.searches ∧
        (step s .unbind).1.counter = s.counter) ∨
    ((step s .unbind).2 = .ldapError ∧ s.state = .closed ∧ (step s .unbind).1 = s) :=
  Proofs.C09More.unbind_effect s

/-- only `.search` and `.receive` can change the search set of a client: every other call
    (accepted or refused; bind, extended, unbind, drain, register, and the server-only calls)
    leaves it as it was.  Together with `search_registers` and `recv_searches` this determines
    `searches` along any history: it is the set of ids returned by `.search` whose
    SearchResultDone has not been accepted yet. -/
theorem searches_frame (s : Sess) (c : Call) (hrole : s.role = .client)
    (hc : isSearchCall c = false) (hrc : isReceiveCall c = false) :
    (step s c).1.searches = s.searches :=
  Proofs.C09More.searches_frame s c hrole hc hrc

/-! ### audit item 2b: who leaves the search set -/

/-- after the client accepts a received message `m`, `j` is a search iff it was one before and
    `m` is not the SearchResultDone for `j`: entries, references (and any other non-done response)
    never remove a search id; only the done for that very id does.  No KeyError can occur. -/
theorem lifetime_searches (s : Sess) (m : Msg) (hr : Reachable s) (hrole : s.role = .client)
    (hs : s.state ≠ .closed) (ha : (clientProcess s m).isSome = true) :
    ∃ s', clientProcess s m = some (s', false) ∧
      ∀ j, j ∈ s'.searches ↔ (j ∈ s.searches ∧ ¬(j = m.id ∧ ∃ r, m.op = .searchDone r)) :=
  Proofs.C09More.lifetime_searches s m hr hrole hs ha

/-- the same at the level of `receive`, for a whole accepted delivery: `j` is a search afterwards
    iff it was one before and no message of the delivery is a SearchResultDone carrying `j` -/
theorem recv_searches (d : Nat) (s : Sess) (chunk : Bytes) (ms : List Msg)
    (hr : Reachable s) (hrole : s.role = .client) (h : (recv d s chunk).2 = .msgs ms) :
    ∀ j, j ∈ (recv d s chunk).1.searches ↔
      (j ∈ s.searches ∧ ¬∃ m ∈ ms, m.id = j ∧ ∃ r, m.op = .searchDone r) :=
  Proofs.C09More.recv_searches d s chunk ms hr hrole h

/-! ### audit item 3: `receive` on a whole delivery -/

/-- for a reachable open client whose buffered bytes parse to the messages `ms` (any number of
    them), `receive` returns them iff the whole delivery satisfies the id rule `AcceptAll` (each
    message is a response whose id is in progress when its turn comes, ids being retired by the
    earlier messages of the same delivery) and none of them is a Notice of Disconnection.

    Notices are handled explicitly instead of being excluded by hypothesis: a notice ends the
    session whatever its id.  An UnbindRequest needs no clause: it is not a response, so
    `AcceptAll` is already false for it. -/
theorem recv_msgs_iff (d : Nat) (s : Sess) (chunk : Bytes) (ms : List Msg) (rest : Bytes)
    (hr : Reachable s) (hrole : s.role = .client) (hs : s.state ≠ .closed)
    (hp : parseLoop s.regs d (s.residue ++ chunk).length (s.residue ++ chunk) = .ok (ms, rest)) :
    (recv d s chunk).2 = .msgs ms ↔
      (AcceptAll s.outstanding s.searches ms ∧ ∀ m ∈ ms, isNoticeOfDisconnection m.op = false) :=
  (Proofs.C09More.recv_msgs_iff d s chunk ms rest hr hrole hs hp).1

/-- the form proposed by the audit: with notices (and unbinds) excluded by hypothesis -/
theorem recv_msgs_iff_no_notice (d : Nat) (s : Sess) (chunk : Bytes) (ms : List Msg) (rest : Bytes)
    (hr : Reachable s) (hrole : s.role = .client) (hs : s.state ≠ .closed)
    (hp : parseLoop s.regs d (s.residue ++ chunk).length (s.residue ++ chunk) = .ok (ms, rest))
    (hn : ∀ m ∈ ms, ¬(m.op.isNotice = true) ∧ ¬(m.op.isUnbind = true)) :
    (recv d s chunk).2 = .msgs ms ↔ AcceptAll s.outstanding s.searches ms :=
  Proofs.C09More.recv_msgs_iff_no_notice d s chunk ms rest hr hrole hs hp hn

/-- the accepting side: the session stays open, exactly the parsed messages' bytes were consumed,
    and the bookkeeping afterwards is the one the id rule prescribes (`afterAll`): searches retired
    by their done, every other operation by its first response -/
theorem recv_accept_all (d : Nat) (s : Sess) (chunk : Bytes) (ms : List Msg) (rest : Bytes)
    (hr : Reachable s) (hrole : s.role = .client) (hs : s.state ≠ .closed)
    (hp : parseLoop s.regs d (s.residue ++ chunk).length (s.residue ++ chunk) = .ok (ms, rest))
    (ha : AcceptAll s.outstanding s.searches ms) (hn : ∀ m ∈ ms, isNoticeOfDisconnection m.op = false) :
    (recv d s chunk).2 = .msgs ms ∧ (recv d s chunk).1.state ≠ .closed ∧
    ((recv d s chunk).1.outstanding, (recv d s chunk).1.searches)
      = afterAll s.outstanding s.searches ms ∧
    (recv d s chunk).1.residue = rest :=
  let t := Proofs.C09More.recv_msgs_iff d s chunk ms rest hr hrole hs hp
  ⟨t.1.2 ⟨ha, hn⟩, t.2.1 ⟨ha, hn⟩⟩

/-- the rejecting side, for a delivery of any length: if ANY message of it — also one that comes
    after good ones — is a request-type message, a response for an id that is unknown, zero,
    completed earlier or completed by an earlier message of the same delivery, or a notice, then
    `receive` raises ProtocolError, the session is closed and nothing is outstanding any more
    (the good messages before the bad one are not returned) -/
theorem recv_reject_any (d : Nat) (s : Sess) (chunk : Bytes) (ms : List Msg) (rest : Bytes)
    (hr : Reachable s) (hrole : s.role = .client) (hs : s.state ≠ .closed)
    (hp : parseLoop s.regs d (s.residue ++ chunk).length (s.residue ++ chunk) = .ok (ms, rest))
    (hbad : ¬(AcceptAll s.outstanding s.searches ms ∧ ∀ m ∈ ms, isNoticeOfDisconnection m.op = false)) :
    (∃ n, (recv d s chunk).2 = .protocolError n) ∧ (recv d s chunk).1.state = .closed ∧
      (recv d s chunk).1.outstanding = [] :=
  (Proofs.C09More.recv_msgs_iff d s chunk ms rest hr hrole hs hp).2.2 hbad

/-- the set readings of `afterAll` used above do not depend on the model: a search id survives a
    delivery iff the delivery holds no done for it -/
theorem afterAll_searches (ms : List Msg) (o sr : List Int) (j : Int) :
    j ∈ (afterAll o sr ms).2 ↔ (j ∈ sr ∧ ¬∃ m ∈ ms, m.id = j ∧ isSearchDone m.op = true) :=
  Proofs.C09More.afterAll_searches ms o sr j

/-- one step of the id rule, read as a set: `j` stays in progress unless the response carries `j`
    and either `j` is not a search or the response is its done -/
theorem afterResponse_inProgress (o sr : List Int) (m : Msg) (j : Int) :
    j ∈ (afterResponse o sr m).1 ↔
      (j ∈ o ∧ ¬(j = m.id ∧ (m.id ∈ sr → isSearchDone m.op = true))) :=
  Proofs.C09More.afterResponse_inProgress o sr m j

/-! ### non-vacuity -/

/-- the specification's OID is the one the model uses -/
example : noticeOid = Facts.oidNotice := by decide

/-- a reachable open client with a search (id 1) and an extended operation (id 2) in progress -/
abbrev sample : Sess :=
  (step (step (Sess.init .client) (.search [] 0 0 0 0 false none [] [])).1 (.extended [49] none [])).1

example : Reachable sample := .step _ _ (.step _ _ (.init _))
example : sample.role = .client ∧ sample.state ≠ .closed := by decide
example : sample.outstanding = [1, 2] ∧ sample.searches = [1] ∧ sample.counter = 3 := by decide

/- hypotheses of `search_registers` / `nonsearch_not_registered` / the two instances -/
example : (step sample (.search [] 0 0 0 0 false none [] [])).2 = .sent 3 := by rfl
example : (step sample (.extended [49] none [])).2 = .sent 3 := by rfl
example : (step (step sample (.receive [48, 12, 2, 1, 1, 101, 7, 10, 1, 0, 4, 0, 4, 0,
                                         48, 12, 2, 1, 2, 120, 7, 10, 1, 0, 4, 0, 4, 0])).1
            (.bind [] (.simple []) [])).2 = .sent 3 := by rfl
/- first alternative of `unbind_effect` -/
example : (step sample .unbind).2 = .unit := by rfl

def r0 : LdapResult := ⟨0, [], [], none⟩
def mEntry : Msg := ⟨1, .searchEntry [] [], []⟩
def mRef : Msg := ⟨1, .searchRef [[120]], []⟩
def mDone : Msg := ⟨1, .searchDone r0, []⟩
def mExt : Msg := ⟨2, .extResp r0 none none, []⟩

/- `lifetime_searches`: accepted entry keeps the search, accepted done ends it -/
example : (clientProcess sample mEntry).isSome = true := by decide
example : (clientProcess sample mDone).isSome = true := by decide

/-- a good delivery of four messages in one chunk: entry, reference, done for the search, then
    the extended response -/
def goodChunk : Bytes :=
  [48, 9, 2, 1, 1, 100, 4, 4, 0, 48, 0] ++ [48, 8, 2, 1, 1, 115, 3, 4, 1, 120] ++
  [48, 12, 2, 1, 1, 101, 7, 10, 1, 0, 4, 0, 4, 0] ++ [48, 12, 2, 1, 2, 120, 7, 10, 1, 0, 4, 0, 4, 0]

example : parseLoop sample.regs 10 (sample.residue ++ goodChunk).length (sample.residue ++ goodChunk)
    = .ok ([mEntry, mRef, mDone, mExt], []) := by rfl
example : AcceptAll sample.outstanding sample.searches [mEntry, mRef, mDone, mExt] := by decide
example : ∀ m ∈ [mEntry, mRef, mDone, mExt], isNoticeOfDisconnection m.op = false := by decide
example : (recv 10 sample goodChunk).2 = .msgs [mEntry, mRef, mDone, mExt] := by rfl
example : afterAll sample.outstanding sample.searches [mEntry, mRef, mDone, mExt] = ([], []) := by decide

/-- a bad message AFTER good ones in one delivery: entry and done for the search (both fine),
    then another entry for the id the done has just completed -/
def badChunk : Bytes :=
  [48, 9, 2, 1, 1, 100, 4, 4, 0, 48, 0] ++ [48, 12, 2, 1, 1, 101, 7, 10, 1, 0, 4, 0, 4, 0] ++
  [48, 9, 2, 1, 1, 100, 4, 4, 0, 48, 0]

example : parseLoop sample.regs 10 (sample.residue ++ badChunk).length (sample.residue ++ badChunk)
    = .ok ([mEntry, mDone, mEntry], []) := by rfl
example : AcceptAll sample.outstanding sample.searches [mEntry, mDone] := by decide
example : ¬AcceptAll sample.outstanding sample.searches [mEntry, mDone, mEntry] := by decide
example : (recv 10 sample badChunk).2 = .protocolError .unbind ∧
    (recv 10 sample badChunk).1.state = .closed := ⟨by rfl, by rfl⟩

/-- a response for a non-search id after its first response, in one delivery -/
example : ¬AcceptAll sample.outstanding sample.searches [mExt, mExt] := by decide
/-- id zero and an id never issued -/
example : ¬AcceptAll sample.outstanding sample.searches [⟨0, .extResp r0 none none, []⟩] := by decide
example : ¬AcceptAll sample.outstanding sample.searches [⟨3, .extResp r0 none none, []⟩] := by decide
/-- a request-type message -/
example : ¬AcceptAll sample.outstanding sample.searches [⟨1, .extReq [49] none, []⟩] := by decide
/-- a notice carrying an id in progress satisfies the id rule but is still rejected -/
example : AcceptAll sample.outstanding sample.searches [⟨2, .extResp r0 (some noticeOid) none, []⟩] ∧
    isNoticeOfDisconnection (Op.extResp r0 (some noticeOid) none) = true := by decide

end Verif.C09
