/-
Reading the named groups of a `re.Match` (as the capture-aware semantics of `Model/ReCap.lean`
produces them) into the group records of `Model/SchemaMatch.lean` — the vocabulary of the tie
theorems in `Props/TiesSchema.lean`.
-/
import Verif.Model.ReCap
import Verif.Model.SchemaMatch
import Verif.Generated.Regexes

namespace Verif.TiesSchema
open Verif Verif.Schema

/-- a Python `str`: every element is a code point -/
def IsStr (s : Str) : Prop := ∀ c ∈ s, c < 0x110000

/-- CPython group index of a named group -/
def gid (tbl : List (String × Nat)) (name : String) : Nat := ((tbl.find? (fun p => p.1 == name)).map (·.2)).getD 0

/-- `m.group(name)` -/
def grp (tbl : List (String × Nat)) (c : Caps) (name : String) : Option Str := Re.capOf (gid tbl name) c

def ocGroups (c : Caps) : OCGroups :=
  let g := grp Regexes.schema_OBJECT_CLASS_DESCRIPTION_groups c
  { oid := g "oid", name := g "name", desc := g "desc", obsolete := (g "obsolete").isSome, sup := g "sup",
    kind := g "kind", must := g "must", may := g "may", extensions := g "extensions" }

def atGroups (c : Caps) : ATGroups :=
  let g := grp Regexes.schema_ATTRIBUTE_TYPE_DESCRIPTION_groups c
  { oid := g "oid", name := g "name", desc := g "desc", obsolete := (g "obsolete").isSome, sup := g "sup",
    equality := g "equality", ordering := g "ordering", substr := g "substr", syn := g "syntax",
    singleValue := (g "single_value").isSome, collective := (g "collective").isSome,
    noUserMod := (g "no_user_modification").isSome, usage := g "usage", extensions := g "extensions" }

def dcrGroups (c : Caps) : DCRGroups :=
  let g := grp Regexes.schema_DIT_CONTENT_RULE_DESCRIPTION_groups c
  { oid := g "oid", name := g "name", desc := g "desc", obsolete := (g "obsolete").isSome, aux := g "aux",
    must := g "must", may := g "may", never := g "not", extensions := g "extensions" }

end Verif.TiesSchema
