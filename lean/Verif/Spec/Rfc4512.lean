/-
RFC 4512 §4.1 description grammars (ObjectClassDescription, AttributeTypeDescription,
DITContentRuleDescription) as relations between a definition and the code points of a
sentence that denotes it, with every freedom the ABNF gives — any `WSP` (≥ 0 spaces) and
`SP` (≥ 1 space) count, bare or parenthesised `qdescrs` / `oids` / `qdstrings`, `\5c` or
`\5C`, `X-` or `x-`, explicit or omitted default `kind` / `USAGE` — plus the quoted `SYNTAX`
Active Directory emits.  This is the independent reference of C17; it shares nothing with
the model's scanner.  Also the well-formedness domain of C16.
-/
import Verif.Model.Schema
import Verif.Spec.Rfc4515

namespace Verif.Rfc4512

open Verif Verif.Schema

def wspT (n : Nat) : Str := List.replicate n 32          -- WSP
def spT (n : Nat) : Str := List.replicate (n + 1) 32     -- SP

/-- numericoid = number 1*( DOT number ) -/
def IsNumericOidText (s : Str) : Prop := ∃ arcs, Rfc4515.IsNumericOid arcs ∧ s = Schema.joinWith [46] arcs

/-- oid = descr / numericoid -/
def IsOidText (s : Str) : Prop := Rfc4515.IsDescr s ∨ IsNumericOidText s

/-- dstring: `\27` is `'`, `\5c` / `\5C` is `\`, anything else but `'` and `\` stands for itself -/
inductive QdEnc : Str → Str → Prop where
  | nil : QdEnc [] []
  | raw (c : Nat) (v t : Str) : c ≠ 39 → c ≠ 92 → QdEnc v t → QdEnc (c :: v) (c :: t)
  | quote (v t : Str) : QdEnc v t → QdEnc (39 :: v) (92 :: 50 :: 55 :: t)
  | bslash (b : Nat) (v t : Str) : b = 67 ∨ b = 99 → QdEnc v t → QdEnc (92 :: v) (92 :: 53 :: b :: t)

/-- qdstring = SQUOTE dstring SQUOTE, dstring non-empty -/
def QdString (v t : Str) : Prop := v ≠ [] ∧ ∃ body, QdEnc v body ∧ t = [39] ++ body ++ [39]

/-- qdescr = SQUOTE descr SQUOTE -/
def QDescr (n t : Str) : Prop := Rfc4515.IsDescr n ∧ t = [39] ++ n ++ [39]

/-- `item *( SP item )` -/
inductive SpSep {α : Type} (enc : α → Str → Prop) : List α → Str → Prop where
  | one (x : α) (t : Str) : enc x t → SpSep enc [x] t
  | cons (x : α) (t : Str) (k : Nat) (xs : List α) (ts : Str) : enc x t → SpSep enc xs ts →
      SpSep enc (x :: xs) (t ++ spT k ++ ts)

/-- qdescrs / qdstrings: a bare item, or `( WSP [ item *( SP item ) ] WSP )` -/
inductive ItemOrList {α : Type} (enc : α → Str → Prop) : List α → Str → Prop where
  | bare (x : α) (t : Str) : enc x t → ItemOrList enc [x] t
  | empty (a : Nat) : ItemOrList enc [] ([40] ++ wspT a ++ [41])
  | list (xs : List α) (body : Str) (a b : Nat) : SpSep enc xs body →
      ItemOrList enc xs ([40] ++ wspT a ++ body ++ wspT b ++ [41])

/-- `oid *( WSP DOLLAR WSP oid )` -/
inductive DollarSep : List Str → Str → Prop where
  | one (x : Str) : IsOidText x → DollarSep [x] x
  | cons (x : Str) (a b : Nat) (xs : List Str) (ts : Str) : IsOidText x → DollarSep xs ts →
      DollarSep (x :: xs) (x ++ wspT a ++ [36] ++ wspT b ++ ts)

/-- oids = oid / ( LPAREN WSP oidlist WSP RPAREN ) -/
inductive Oids : List Str → Str → Prop where
  | bare (x : Str) : IsOidText x → Oids [x] x
  | list (xs : List Str) (body : Str) (a b : Nat) : DollarSep xs body →
      Oids xs ([40] ++ wspT a ++ body ++ wspT b ++ [41])

/-- `[ SP kw SP body ]` for a list-valued field: absent iff the list is empty
    (for names, `NAME ( )` is a second way to write the empty list) -/
def OidsPart (kw : String) (l : List Str) (t : Str) : Prop :=
  (l = [] ∧ t = []) ∨ (l ≠ [] ∧ ∃ a b body, Oids l body ∧ t = spT a ++ ofString kw ++ spT b ++ body)

def NamesPart (l : List Str) (t : Str) : Prop :=
  (l = [] ∧ t = []) ∨ (∃ a b body, ItemOrList QDescr l body ∧ t = spT a ++ ofString "NAME" ++ spT b ++ body)

def DescPart (d : Option Str) (t : Str) : Prop :=
  match d with
  | none => t = []
  | some v => ∃ a b body, QdString v body ∧ t = spT a ++ ofString "DESC" ++ spT b ++ body

def FlagPart (kw : String) (f : Bool) (t : Str) : Prop :=
  if f then ∃ a, t = spT a ++ ofString kw else t = []

def OptOidPart (kw : String) (o : Option Str) (t : Str) : Prop :=
  match o with
  | none => t = []
  | some v => IsOidText v ∧ ∃ a b, t = spT a ++ ofString kw ++ spT b ++ v

/-- xstring = "X" HYPHEN 1*( ALPHA / HYPHEN / USCORE ); the library also accepts `x-` -/
def IsExtKey (k : Str) : Prop := k ≠ [] ∧ ∀ c ∈ k, Schema.isAlpha c = true ∨ c = 45 ∨ c = 95

/-- extensions = *( SP xstring SP qdstrings ) -/
inductive ExtsEnc : List (Str × List Str) → Str → Prop where
  | nil : ExtsEnc [] []
  | cons (k : Str) (vs : List Str) (x : Nat) (a b : Nat) (body : Str) (rest : List (Str × List Str)) (ts : Str) :
      IsExtKey k → (x = 88 ∨ x = 120) → ItemOrList QdString vs body → ExtsEnc rest ts →
      ExtsEnc ((k, vs) :: rest) (spT a ++ [x, 45] ++ k ++ spT b ++ body ++ ts)

def KeysDistinct (e : List (Str × List Str)) : Prop := (e.map (·.1)).Nodup

/-! ### ObjectClassDescription -/

/-- `[ SP kind ]`: STRUCTURAL may be omitted -/
def KindPart (k : Nat) (t : Str) : Prop :=
  k ≤ 2 ∧ ((k = 1 ∧ t = []) ∨ ∃ a, t = spT a ++ ofString (kindName k))

def OCSent (d : ObjectClass) (s : Str) : Prop :=
  IsNumericOidText d.oid ∧ KeysDistinct d.exts ∧
  ∃ w0 tn td to ts tk tm ty te w1,
    NamesPart d.names tn ∧ DescPart d.desc td ∧ FlagPart "OBSOLETE" d.obsolete to ∧ OidsPart "SUP" d.sup ts ∧
    KindPart d.kind tk ∧ OidsPart "MUST" d.must tm ∧ OidsPart "MAY" d.may ty ∧ ExtsEnc d.exts te ∧
    s = [40] ++ wspT w0 ++ d.oid ++ tn ++ td ++ to ++ ts ++ tk ++ tm ++ ty ++ te ++ wspT w1 ++ [41]

/-! ### AttributeTypeDescription -/

/-- `[ SP "SYNTAX" SP noidlen ]`, noidlen = numericoid [ LCURLY len RCURLY ]; Active
    Directory writes the same thing inside single quotes -/
def SyntaxPart (syn : Option Str) (len : Option Nat) (t : Str) : Prop :=
  match syn with
  | none => len = none ∧ t = []
  | some v =>
    IsNumericOidText v ∧
    ∃ (a b : Nat) (q : Bool),
      let body := v ++ (match len with | none => [] | some n => [123] ++ natDigits n ++ [125])
      t = spT a ++ ofString "SYNTAX" ++ spT b ++ (if q then [39] ++ body ++ [39] else body)

/-- `[ SP "USAGE" SP usage ]`: userApplications may be omitted -/
def UsagePart (u : Nat) (t : Str) : Prop :=
  u ≤ 3 ∧ ((u = 0 ∧ t = []) ∨ ∃ a b, t = spT a ++ ofString "USAGE" ++ spT b ++ ofString (usageName u))

def ATSent (d : AttributeType) (s : Str) : Prop :=
  IsNumericOidText d.oid ∧ KeysDistinct d.exts ∧
  ∃ w0 tn td to ts teq tor tsu tsy tsv tco tnu tus te w1,
    NamesPart d.names tn ∧ DescPart d.desc td ∧ FlagPart "OBSOLETE" d.obsolete to ∧ OptOidPart "SUP" d.sup ts ∧
    OptOidPart "EQUALITY" d.equality teq ∧ OptOidPart "ORDERING" d.ordering tor ∧ OptOidPart "SUBSTR" d.substr tsu ∧
    SyntaxPart d.syn d.synLen tsy ∧ FlagPart "SINGLE-VALUE" d.singleValue tsv ∧ FlagPart "COLLECTIVE" d.collective tco ∧
    FlagPart "NO-USER-MODIFICATION" d.noUserMod tnu ∧ UsagePart d.usage tus ∧ ExtsEnc d.exts te ∧
    s = [40] ++ wspT w0 ++ d.oid ++ tn ++ td ++ to ++ ts ++ teq ++ tor ++ tsu ++ tsy ++ tsv ++ tco ++ tnu ++ tus ++ te
          ++ wspT w1 ++ [41]

/-! ### DITContentRuleDescription -/

def DCRSent (d : DITContentRule) (s : Str) : Prop :=
  IsNumericOidText d.oid ∧ KeysDistinct d.exts ∧
  ∃ w0 tn td to ta tm ty tnot te w1,
    NamesPart d.names tn ∧ DescPart d.desc td ∧ FlagPart "OBSOLETE" d.obsolete to ∧ OidsPart "AUX" d.aux ta ∧
    OidsPart "MUST" d.must tm ∧ OidsPart "MAY" d.may ty ∧ OidsPart "NOT" d.never tnot ∧ ExtsEnc d.exts te ∧
    s = [40] ++ wspT w0 ++ d.oid ++ tn ++ td ++ to ++ ta ++ tm ++ ty ++ tnot ++ te ++ wspT w1 ++ [41]

/-! ### the domain of C16: definitions whose fields are valid per RFC 4512 -/

def ExtsWF (e : List (Str × List Str)) : Prop :=
  KeysDistinct e ∧ ∀ kv ∈ e, IsExtKey kv.1 ∧ ∀ v ∈ kv.2, v ≠ []

def CommonWF (oid : Str) (names : List Str) (desc : Option Str) (exts : List (Str × List Str)) : Prop :=
  IsNumericOidText oid ∧ (∀ n ∈ names, Rfc4515.IsDescr n) ∧ (match desc with | none => True | some v => v ≠ []) ∧ ExtsWF exts

def ObjectClass.WF (d : ObjectClass) : Prop :=
  CommonWF d.oid d.names d.desc d.exts ∧ d.kind ≤ 2 ∧
    (∀ x ∈ d.sup, IsOidText x) ∧ (∀ x ∈ d.must, IsOidText x) ∧ (∀ x ∈ d.may, IsOidText x)

def optOidWF : Option Str → Prop
  | none => True
  | some v => IsOidText v

def AttributeType.WF (d : AttributeType) : Prop :=
  CommonWF d.oid d.names d.desc d.exts ∧ d.usage ≤ 3 ∧ optOidWF d.sup ∧ optOidWF d.equality ∧ optOidWF d.ordering ∧
    optOidWF d.substr ∧
    (match d.syn with | none => d.synLen = none | some v => IsNumericOidText v)

def DITContentRule.WF (d : DITContentRule) : Prop :=
  CommonWF d.oid d.names d.desc d.exts ∧
    (∀ x ∈ d.aux, IsOidText x) ∧ (∀ x ∈ d.must, IsOidText x) ∧ (∀ x ∈ d.may, IsOidText x) ∧ (∀ x ∈ d.never, IsOidText x)

end Verif.Rfc4512
