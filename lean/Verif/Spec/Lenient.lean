/-
C04: the encodings of a message that a conforming peer may send.  A relation `MsgL m bs`
("bs is a permitted BER encoding of m") that grants, at every TLV node, the freedoms RFC 4511
§5.1 / X.690 leave to a sender and the extensibility rules of RFC 4511 §4 allow:

* any definite length form — short, or long with 1..127 length octets, leading zeros
  included (e.g. the fixed 4-octet lengths Active Directory emits);
* BOOLEAN TRUE as any non-zero octet;
* explicitly encoded DEFAULT values (criticality FALSE, dnAttributes FALSE);
* unrecognised trailing elements after the defined components of a sequence (for sequences
  whose remaining content the receiver must ignore, any trailing octets at all).

The message `m` on the left carries, for library-known controls, the raw value octets as sent.
Written from the RFC's ASN.1, independently of the library model's decoder.
-/
import Verif.Model.Msg
import Verif.Spec.Twos
import Verif.Spec.WF

namespace Verif.Lenient

open Verif

def Readable (t : Tag) : Prop := t.cls < 4 ∧ (t.cls = 0 → t.num ≤ 36)

/-- any definite-form length octets for the length `n` -/
inductive LenEnc : Nat → Bytes → Prop where
  | short (n : Nat) : n < 128 → LenEnc n [n]
  | long (ds : Bytes) : IsBytes ds → 1 ≤ ds.length → ds.length ≤ 127 → LenEnc (beNat ds) ((128 + ds.length) :: ds)

/-- identifier, any length form, content -/
inductive TLV (t : Tag) (c : Bytes) : Bytes → Prop where
  | mk (le : Bytes) : LenEnc c.length le → TLV t c (packTag t ++ le ++ c)

/-- zero or more whole elements with readable tags, none of them a context-specific tag
    whose number is in `excl` -/
inductive Extras (excl : List Nat) : Bytes → Prop where
  | nil : Extras excl []
  | cons (t : Tag) (c e rest : Bytes) : Readable t → (t.cls = 2 → t.num ∉ excl) → TLV t c e → Extras excl rest →
      Extras excl (e ++ rest)

/-- BOOLEAN: FALSE is 00, TRUE is any non-zero octet -/
inductive BoolL (t : Tag) : Bool → Bytes → Prop where
  | false (bs : Bytes) : TLV t [0] bs → BoolL t false bs
  | true (x : Nat) (bs : Bytes) : x ≠ 0 → x < 256 → TLV t [x] bs → BoolL t true bs

def IntL (t : Tag) (v : Int) (bs : Bytes) : Prop := TLV t (intContent v) bs

/-- OPTIONAL element -/
inductive OptL (t : Tag) : Option Bytes → Bytes → Prop where
  | none : OptL t none []
  | some (v bs : Bytes) : TLV t v bs → OptL t (some v) bs

/-- `SEQUENCE OF` / `SET OF` octet strings -/
inductive OctetsL (t : Tag) : List Bytes → Bytes → Prop where
  | nil : OctetsL t [] []
  | cons (v e : Bytes) (vs : List Bytes) (rest : Bytes) : TLV t v e → OctetsL t vs rest → OctetsL t (v :: vs) (e ++ rest)

/-! ### Filter -/

mutual
inductive FilterL : Filter → Bytes → Prop where
  | and (fs : List Filter) (body bs : Bytes) : FiltersL fs body → TLV (tagCtx 0 true) body bs → FilterL (.and fs) bs
  | or (fs : List Filter) (body bs : Bytes) : FiltersL fs body → TLV (tagCtx 1 true) body bs → FilterL (.or fs) bs
  | not (f : Filter) (fb extra bs : Bytes) : FilterL f fb → TLV (tagCtx 2 true) (fb ++ extra) bs → FilterL (.not f) bs
  | eq (a v ab vb extra bs : Bytes) : TLV tOctets a ab → TLV tOctets v vb →
      TLV (tagCtx 3 true) (ab ++ vb ++ extra) bs → FilterL (.eq a v) bs
  | ge (a v ab vb extra bs : Bytes) : TLV tOctets a ab → TLV tOctets v vb →
      TLV (tagCtx 5 true) (ab ++ vb ++ extra) bs → FilterL (.ge a v) bs
  | le (a v ab vb extra bs : Bytes) : TLV tOctets a ab → TLV tOctets v vb →
      TLV (tagCtx 6 true) (ab ++ vb ++ extra) bs → FilterL (.le a v) bs
  | approx (a v ab vb extra bs : Bytes) : TLV tOctets a ab → TLV tOctets v vb →
      TLV (tagCtx 8 true) (ab ++ vb ++ extra) bs → FilterL (.approx a v) bs
  | present (a bs : Bytes) : TLV (tagCtx 7) a bs → FilterL (.present a) bs
  /-- SubstringFilter: type, SEQUENCE OF { initial [0]?, any [1]*, final [2]? , unknown… }, … -/
  | substr (a : Bytes) (i : Option Bytes) (any : List Bytes) (f : Option Bytes)
      (ab ib anyb fb ex sb extra bs : Bytes) :
      TLV tOctets a ab → OptL (tagCtx 0) i ib → OctetsL (tagCtx 1) any anyb → OptL (tagCtx 2) f fb →
      Extras [0, 1, 2] ex → TLV tSeq (ib ++ anyb ++ fb ++ ex) sb →
      TLV (tagCtx 4 true) (ab ++ sb ++ extra) bs → FilterL (.substr a i any f) bs
  /-- MatchingRuleAssertion: matchingRule [1]?, type [2]?, matchValue [3], dnAttributes [4]
      DEFAULT FALSE (absent, explicit FALSE, or TRUE), unknown… -/
  | ext (rule attr : Option Bytes) (v : Bytes) (dn : Bool) (rb ab vb db ex bs : Bytes) :
      OptL (tagCtx 1) rule rb → OptL (tagCtx 2) attr ab → TLV (tagCtx 3) v vb →
      ((dn = false ∧ db = []) ∨ BoolL (tagCtx 4) dn db) → Extras [1, 2, 3, 4] ex →
      TLV (tagCtx 9 true) (rb ++ ab ++ vb ++ db ++ ex) bs → FilterL (.ext rule attr v dn) bs
  | custom (v bs : Bytes) : TLV (tagCtx Facts.customFilterId) v bs → FilterL (.custom v) bs
inductive FiltersL : List Filter → Bytes → Prop where
  | nil : FiltersL [] []
  | cons (f : Filter) (fb : Bytes) (fs : List Filter) (rest : Bytes) : FilterL f fb → FiltersL fs rest →
      FiltersL (f :: fs) (fb ++ rest)
end

/-! ### Credentials, controls, result -/

inductive CredL : Cred → Bytes → Prop where
  | simple (pw bs : Bytes) : TLV (tagCtx 0) pw bs → CredL (.simple pw) bs
  | saslNoCreds (mech mb bs : Bytes) : TLV tOctets mech mb → TLV (tagCtx 3 true) mb bs → CredL (.sasl mech none) bs
  | sasl (mech cr mb cb extra bs : Bytes) : TLV tOctets mech mb → TLV tOctets cr cb →
      TLV (tagCtx 3 true) (mb ++ cb ++ extra) bs → CredL (.sasl mech (some cr)) bs
  | custom (v bs : Bytes) : TLV (tagCtx Facts.customCredId) v bs → CredL (.custom v) bs

/-- RFC 2696 value: SEQUENCE { size, cookie, … } … -/
def PagedValueL (size : Int) (cookie vb : Bytes) : Prop :=
  ∃ sb cb extra1 seq extra2, IntL tInt size sb ∧ TLV tOctets cookie cb ∧ TLV tSeq (sb ++ cb ++ extra1) seq ∧ vb = seq ++ extra2

/-- criticality BOOLEAN DEFAULT FALSE: absent, explicit FALSE, or TRUE -/
def CritL (crit : Bool) (bs : Bytes) : Prop := (crit = false ∧ bs = []) ∨ BoolL tBool crit bs

/-- Control ::= SEQUENCE { controlType, criticality DEFAULT FALSE, controlValue OPTIONAL }.
    Trailing octets are granted only after a controlValue (they are then never looked at). -/
inductive ControlL : Control → Bytes → Prop where
  | mk (c : Control) (ob cb vb extra bs : Bytes) :
      TLV tOctets (controlOid c) ob → CritL (controlCrit c) cb →
      (match c with
       | .generic _ _ value => (value = none ∧ vb = [] ∧ extra = []) ∨ (∃ v, value = some v ∧ TLV tOctets v vb)
       | .paged _ size cookie raw => ∃ v, raw = some v ∧ PagedValueL size cookie v ∧ TLV tOctets v vb
       | .showDeleted _ raw => (raw = none ∧ vb = [] ∧ extra = []) ∨ (∃ v, raw = some v ∧ TLV tOctets v vb)
       | .showDeactivated _ raw => (raw = none ∧ vb = [] ∧ extra = []) ∨ (∃ v, raw = some v ∧ TLV tOctets v vb)
       | .custom _ data raw => raw = some (Facts.customControlMagic ++ data) ∧ TLV tOctets (Facts.customControlMagic ++ data) vb) →
      TLV tSeq (ob ++ cb ++ vb ++ extra) bs → ControlL c bs

inductive ControlsL : List Control → Bytes → Prop where
  | nil : ControlsL [] []
  | cons (c : Control) (cb : Bytes) (cs : List Control) (rest : Bytes) : ControlL c cb → ControlsL cs rest →
      ControlsL (c :: cs) (cb ++ rest)

/-- COMPONENTS OF LDAPResult: resultCode, matchedDN, diagnosticMessage, referral [3] OPTIONAL -/
def ResultL (r : LdapResult) (bs : Bytes) : Prop :=
  ∃ cb mb db rb, IntL tEnum r.code cb ∧ TLV tOctets r.matchedDn mb ∧ TLV tOctets r.diag db ∧
    (match r.referrals with
     | none => rb = []
     | some us => ∃ ub, OctetsL tOctets us ub ∧ TLV (tagCtx 3 true) ub rb) ∧
    bs = cb ++ mb ++ db ++ rb

/-! ### protocol operations and the envelope -/

inductive AttrsL : List (Bytes × List Bytes) → Bytes → Prop where
  | nil : AttrsL [] []
  | cons (n : Bytes) (vs : List Bytes) (nb vb sb extra ab : Bytes) (as : List (Bytes × List Bytes)) (rest : Bytes) :
      TLV tOctets n nb → OctetsL tOctets vs vb → TLV tSet vb sb → TLV tSeq (nb ++ sb ++ extra) ab → AttrsL as rest →
      AttrsL ((n, vs) :: as) (ab ++ rest)

/-- content octets of the protocolOp, per operation -/
inductive OpL : Op → Bytes → Prop where
  | bindReq (v : Int) (n : Bytes) (c : Cred) (vb nb cb extra : Bytes) :
      IntL tInt v vb → TLV tOctets n nb → CredL c cb → OpL (.bindReq v n c) (vb ++ nb ++ cb ++ extra)
  | bindResp (r : LdapResult) (s : Option Bytes) (rb sb ex : Bytes) :
      ResultL r rb → OptL (tagCtx 7) s sb → Extras [3, 7] ex → OpL (.bindResp r s) (rb ++ sb ++ ex)
  | unbind (c : Bytes) : OpL .unbind c
  | searchReq (b : Bytes) (sc dr sl tl : Int) (ty : Bool) (f : Filter) (attrs : List Bytes)
      (bb scb drb slb tlb tyb fb ab asb extra : Bytes) :
      TLV tOctets b bb → IntL tEnum sc scb → IntL tEnum dr drb → IntL tInt sl slb → IntL tInt tl tlb →
      BoolL tBool ty tyb → FilterL f fb → OctetsL tOctets attrs ab → TLV tSeq ab asb →
      OpL (.searchReq b sc dr sl tl ty f attrs) (bb ++ scb ++ drb ++ slb ++ tlb ++ tyb ++ fb ++ asb ++ extra)
  | searchEntry (n : Bytes) (attrs : List (Bytes × List Bytes)) (nb ab sb extra : Bytes) :
      TLV tOctets n nb → AttrsL attrs ab → TLV tSeq ab sb → OpL (.searchEntry n attrs) (nb ++ sb ++ extra)
  | searchDone (r : LdapResult) (rb ex : Bytes) : ResultL r rb → Extras [3] ex → OpL (.searchDone r) (rb ++ ex)
  | searchRef (uris : List Bytes) (ub : Bytes) : OctetsL tOctets uris ub → OpL (.searchRef uris) ub
  | extReq (n : Bytes) (v : Option Bytes) (nb vb ex : Bytes) :
      TLV (tagCtx 0) n nb → OptL (tagCtx 1) v vb → Extras [1] ex → OpL (.extReq n v) (nb ++ vb ++ ex)
  | extResp (r : LdapResult) (n v : Option Bytes) (rb nb vb ex : Bytes) :
      ResultL r rb → OptL (tagCtx 10) n nb → OptL (tagCtx 11) v vb → Extras [3, 10, 11] ex →
      OpL (.extResp r n v) (rb ++ nb ++ vb ++ ex)

/-- LDAPMessage ::= SEQUENCE { messageID, protocolOp, controls [0] OPTIONAL, … }.
    The protocolOp identifier is accepted in either form (RFC: constructed, except
    UnbindRequest which is primitive). -/
inductive MsgL : Msg → Bytes → Prop where
  | mk (m : Msg) (cons : Bool) (ib ob opb cb ex bs : Bytes) :
      IntL tInt m.id ib → OpL m.op ob → TLV (tagApp (opTag m.op) cons) ob opb →
      ((m.controls = [] ∧ cb = []) ∨ (∃ body, ControlsL m.controls body ∧ TLV (tagCtx 0 true) body cb)) →
      Extras [0, 10] ex → TLV tSeq (ib ++ opb ++ cb ++ ex) bs → MsgL m bs

end Verif.Lenient
