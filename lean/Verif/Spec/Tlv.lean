/-
Generic TLV trees and a strict, independent BER parser (X.690 §8.1, definite lengths only).
Shares no code with the library model's readers.
-/
import Verif.Model.Ber

namespace Verif

inductive Tlv where
  | prim (cls num : Nat) (content : Bytes)
  | cons (cls num : Nat) (kids : List Tlv)
  deriving Repr, Inhabited

/-- subsequent identifier octets of the high-tag-number form: base 128, bit 8 = "more" -/
def strictTagNum : Bytes → Nat → Option (Nat × Bytes)
  | [], _ => none
  | b :: rest, acc =>
    if b < 128 then some (acc * 128 + b, rest)
    else if b < 256 then strictTagNum rest (acc * 128 + (b - 128))
    else none

/-- big-endian value of exactly `k` octets, and the rest -/
def strictBe : Nat → Bytes → Nat → Option (Nat × Bytes)
  | 0, bs, acc => some (acc, bs)
  | _+1, [], _ => none
  | k+1, b :: rest, acc => if b < 256 then strictBe k rest (acc * 256 + b) else none

/-- identifier and length octets: class, constructed, number, content length, rest.
    Rejects: high-tag form for numbers < 31, a first subsequent octet of 0x80 (X.690
    §8.1.2.4.2 c), the indefinite form and the reserved length octet 0xFF. -/
def strictHeader (bs : Bytes) : Option (Nat × Bool × Nat × Nat × Bytes) :=
  match bs with
  | [] => none
  | o1 :: r1 =>
    if 256 ≤ o1 then none else
    let cls := o1 / 64
    let cons := decide (o1 / 32 % 2 = 1)
    let low := o1 % 32
    let tagRes : Option (Nat × Bytes) :=
      if low < 31 then some (low, r1)
      else match r1 with
        | [] => none
        | b :: _ => if b = 128 then none else
          match strictTagNum r1 0 with
          | some (n, r) => if n < 31 then none else some (n, r)
          | none => none
    match tagRes with
    | none => none
    | some (num, r2) =>
      match r2 with
      | [] => none
      | l :: r3 =>
        if l < 128 then some (cls, cons, num, l, r3)
        else if l = 128 ∨ 255 ≤ l then none
        else match strictBe (l - 128) r3 0 with
          | some (len, r4) => some (cls, cons, num, len, r4)
          | none => none

mutual
/-- parse one TLV; constructed contents are parsed recursively and must be consumed exactly -/
def strictParse : Nat → Bytes → Option (Tlv × Bytes)
  | 0, _ => none
  | fuel+1, bs =>
    match strictHeader bs with
    | none => none
    | some (cls, cons, num, len, r) =>
      if r.length < len then none
      else
        let content := r.take len
        let rest := r.drop len
        if cons then
          match strictParseList fuel content with
          | some kids => some (.cons cls num kids, rest)
          | none => none
        else some (.prim cls num content, rest)
def strictParseList : Nat → Bytes → Option (List Tlv)
  | 0, bs => if bs.isEmpty then some [] else none
  | fuel+1, bs =>
    if bs.isEmpty then some []
    else match strictParse fuel bs with
      | some (t, rest) =>
        match strictParseList fuel rest with
        | some ts => some (t :: ts)
        | none => none
      | none => none
end

/-- parse exactly one TLV with nothing left over -/
def strictParseAll (bs : Bytes) : Option Tlv :=
  match strictParse (bs.length + 1) bs with
  | some (t, []) => some t
  | _ => none

end Verif
