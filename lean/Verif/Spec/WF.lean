/-
Well-formedness of abstract messages (the domain of C01/C03/C04), the `fillRaw` image (the one
permitted difference between a message and its decoding), and nesting depth.
-/
import Verif.Model.Msg

namespace Verif

/-- a Python `str` without lone surrogates, as UTF-8 octets -/
def IsText (b : Bytes) : Prop := validUtf8 b = true

def optText : Option Bytes → Prop
  | none => True
  | some b => IsText b

mutual
/-- text fields are text; custom filters only where the session registered the type -/
def Filter.WF (regs : Regs) : Filter → Prop
  | .and fs => Filter.WFs regs fs
  | .or fs => Filter.WFs regs fs
  | .not f => Filter.WF regs f
  | .eq a _ | .ge a _ | .le a _ | .approx a _ | .present a => IsText a
  | .substr a _ _ _ => IsText a
  | .ext rule attr _ _ => optText rule ∧ optText attr
  | .custom v => regs.filter = true ∧ IsText v
def Filter.WFs (regs : Regs) : List Filter → Prop
  | [] => True
  | f :: fs => Filter.WF regs f ∧ Filter.WFs regs fs
end

mutual
/-- number of nested `LDAPFilter.unpack` activations needed to decode the filter -/
def Filter.depth : Filter → Nat
  | .and fs => 1 + Filter.depths fs
  | .or fs => 1 + Filter.depths fs
  | .not f => 1 + Filter.depth f
  | _ => 1
def Filter.depths : List Filter → Nat
  | [] => 0
  | f :: fs => max (Filter.depth f) (Filter.depths fs)
end

def Cred.WF (regs : Regs) : Cred → Prop
  | .simple pw => IsText pw
  | .sasl mech _ => IsText mech
  | .custom v => regs.auth = true ∧ IsText v

/-- a generic control must not carry the OID of a control type the decoding session knows:
    such a value *is* the typed control (excluded point: see DESIGN.md, observation F-C01) -/
def Control.WF (regs : Regs) : Control → Prop
  | .generic oid _ _ =>
    IsText oid ∧ oid ≠ Facts.oidPaged ∧ oid ≠ Facts.oidShowDeleted ∧ oid ≠ Facts.oidShowDeactivated ∧
      (regs.control = true → oid ≠ Facts.oidCustomControl)
  | .custom .. => regs.control = true
  | _ => True

def LdapResult.WF (r : LdapResult) : Prop :=
  IsText r.matchedDn ∧ IsText r.diag ∧
    (match r.referrals with | none => True | some rs => ∀ u ∈ rs, IsText u)

def Op.WF (regs : Regs) : Op → Prop
  | .bindReq _ n c => IsText n ∧ Cred.WF regs c
  | .bindResp r _ => r.WF
  | .unbind => True
  | .searchReq b sc dr _ _ _ f attrs =>
    IsText b ∧ Facts.scopeValues.contains sc = true ∧ Facts.derefValues.contains dr = true ∧
      Filter.WF regs f ∧ ∀ a ∈ attrs, IsText a
  | .searchEntry n attrs => IsText n ∧ ∀ a ∈ attrs, IsText a.1
  | .searchDone r => r.WF
  | .searchRef uris => ∀ u ∈ uris, IsText u
  | .extReq n _ => IsText n
  | .extResp r n _ => r.WF ∧ optText n

def Msg.WF (regs : Regs) (m : Msg) : Prop :=
  Op.WF regs m.op ∧ ∀ c ∈ m.controls, Control.WF regs c

def Op.filterDepth : Op → Nat
  | .searchReq _ _ _ _ _ _ f _ => Filter.depth f
  | _ => 0

/-- what decoding adds: the raw value octets of library-known (and registered custom) controls -/
def fillRawControl : Control → Control
  | .paged c s k _ => .paged c s k (some (pagedValue s k))
  | .custom c d _ => .custom c d (some (Facts.customControlMagic ++ d))
  | c => c

def fillRaw (m : Msg) : Msg := { m with controls := m.controls.map fillRawControl }

/-- the message contains none of the harness' custom types (the RFC knows nothing of them) -/
def Msg.noCustom (m : Msg) : Prop := Msg.WF {} m

end Verif
