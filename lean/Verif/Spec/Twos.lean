/-
Arithmetic oracle for INTEGER / ENUMERATED content octets (X.690 §8.3), written without
reference to the library's loops.
-/
import Verif.Model.Ber

namespace Verif

/-- big-endian unsigned value of an octet list -/
def beNat : Bytes → Nat
  | [] => 0
  | b :: bs => b * 256 ^ bs.length + beNat bs

/-- the two's-complement value the content octets denote (X.690 §8.3.3) -/
def twos (bs : Bytes) : Int :=
  match bs with
  | [] => 0
  | b0 :: _ => if 128 ≤ b0 then (beNat bs : Int) - (256 : Int) ^ bs.length else (beNat bs : Int)

/-- X.690 §8.3.2: at least one octet, and the first nine bits are neither all zero nor all one -/
def Minimal (bs : Bytes) : Prop :=
  match bs with
  | [] => False
  | [_] => True
  | b0 :: b1 :: _ => ¬(b0 = 0 ∧ b1 < 128) ∧ ¬(b0 = 255 ∧ 128 ≤ b1)

instance (bs : Bytes) : Decidable (Minimal bs) := by
  unfold Minimal; split <;> exact inferInstance

end Verif
