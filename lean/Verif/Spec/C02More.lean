/-
Declarative description of ONE complete BER data unit (X.690 §8.1.2 identifier octets, §8.1.3
definite length octets, then exactly that many content octets).  Written from X.690; shares no
code with the model's readers nor with `frame`.  Used by the generalised framing statements of
C02 (Props/C02More.lean): "a proper prefix of a complete unit", for units that are NOT
necessarily produced by the library's own encoder.
-/
import Verif.Spec.Frame
import Verif.Spec.Twos

namespace Verif

/-- value of a list of base-128 digits, most significant first (X.690 §8.1.2.4.2 b) -/
def b128Val : List Nat → Nat
  | [] => 0
  | d :: r => d * 128 ^ r.length + b128Val r

/-- `IdOctets os cls cons num`: `os` are identifier octets denoting class `cls` (0 = UNIVERSAL …
    3 = PRIVATE), the primitive/constructed bit `cons` and tag number `num`.
    * low-tag-number form (§8.1.2.2–3): one octet, bits 8–7 class, bit 6 P/C, bits 5–1 the number;
    * high-tag-number form (§8.1.2.4): bits 5–1 all ones, then base-128 digits, bit 8 set on all
      but the last one.
    Deliberately permissive (the theorems quantify over MORE inputs): the high form is allowed
    for numbers below 31 and with leading zero digits, which §8.1.2.4.2 c forbids. -/
inductive IdOctets : Bytes → Nat → Bool → Nat → Prop
  | low (cls : Nat) (cons : Bool) (num : Nat) (hc : cls < 4) (hn : num < 31) :
      IdOctets [cls * 64 + (if cons then 32 else 0) + num] cls cons num
  | high (cls : Nat) (cons : Bool) (ds : List Nat) (d : Nat) (hc : cls < 4)
      (hds : ∀ x ∈ ds, x < 128) (hd : d < 128) :
      IdOctets ((cls * 64 + (if cons then 32 else 0) + 31) :: (ds.map (· + 128) ++ [d]))
        cls cons (b128Val (ds ++ [d]))

/-- `LenOctets os n`: `os` are definite-form length octets for a content of `n` octets.
    * short form (§8.1.3.4): one octet below 128;
    * long form (§8.1.3.5): `128 + k` followed by `k` octets (1 ≤ k ≤ 126; 0xFF is reserved)
      holding `n` big-endian — not necessarily in the fewest octets (BER, not DER).
    The indefinite form (§8.1.3.6) is not a length. -/
inductive LenOctets : Bytes → Nat → Prop
  | short (n : Nat) (h : n < 128) : LenOctets [n] n
  | long (os : Bytes) (h1 : os ≠ []) (h2 : os.length ≤ 126) :
      LenOctets ((128 + os.length) :: os) (beNat os)

/-- `u` is exactly one complete data unit with the given identifier: identifier octets, length
    octets, and as many content octets as the length octets say.  The content is arbitrary. -/
def IsTlv (cls : Nat) (cons : Bool) (num : Nat) (u : Bytes) : Prop :=
  ∃ id len content, IdOctets id cls cons num ∧ LenOctets len content.length ∧ u = id ++ len ++ content

/-- a complete top-level unit of an LDAP stream (RFC 4511 §4.1.1: `LDAPMessage ::= SEQUENCE`):
    any complete data unit whose identifier is UNIVERSAL, constructed, number 16.  Nothing is
    asked of the content: it need not be a valid LDAPMessage, let alone one the library wrote. -/
def IsUnit (u : Bytes) : Prop := IsTlv 0 true 16 u

/-- `receive` answered "no message yet": it returned the empty list, raised nothing, changed
    nothing in the session, and now buffers everything delivered so far -/
def RecvWaits (depth : Nat) (s : Sess) (chunk : Bytes) : Prop :=
  recv depth s chunk = ({ s with residue := s.residue ++ chunk }, .msgs [])

/-- `receive` refused the data: ProtocolError (with the notification of a decoding failure),
    no message returned, the session closed, the bytes still buffered -/
def RecvRefuses (depth : Nat) (s : Sess) (chunk : Bytes) : Prop :=
  recv depth s chunk = (closeSess { s with residue := s.residue ++ chunk },
                        .protocolError (notificationFor s.role false false))

/-- cut a byte string into consecutive chunks: the first `k` octets, then the next, … and the
    remainder (used to write down concrete chunkings) -/
def cut (st : Bytes) : List Nat → List Bytes
  | [] => [st]
  | k :: ks => st.take k :: cut (st.drop k) ks

end Verif
