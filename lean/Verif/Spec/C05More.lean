/-
Specification-level definitions for `Props/C05More.lean` (C05, second batch):

1. `Progress` — what "an element decoder consumes at least one octet" means; the hypothesis
   under which a `while reader:` loop needs no more iterations than there are octets.
2. `element`, `AfterElements`, `FilterDeeper` — X.690 §8.1 elements (identifier octets, definite
   length octets, contents) and "the Filter at this position demands more than `k` nested
   `LDAPFilter.unpack` activations": written from X.690 and the Filter CHOICE of RFC 4511 §4.5.1
   (and [0], or [1], not [2] are the only alternatives that contain Filters).  Shares no code with
   the model's readers (`readHeader`, `readTLV`, `decFilter`); reuses only the two digit
   functions of the independent framing spec (`Spec/Frame.lean`).
3. `notifBytes` — the octets a `Notification` tag stands for, written from RFC 4511 §4.4.1
   (Notice of Disconnection), §4.3 (Unbind) and the `ProtocolError.response` documentation of
   `_session.py`, with its own DER writer; `noticeOfDisconnection` / `unbindRequest` — the abstract
   messages those octets must denote.
4. `RecvCause`, `attached` — which received message (Python: `ProtocolError.request`) made
   `receive` fail, and which notification the client / server wrapper attaches for it.
-/
import Verif.Model.Session
import Verif.Spec.Frame

namespace Verif.C05More
open Verif

/-! ### 1. progress of an element decoder -/

/-- a successful call leaves strictly fewer octets than it was given -/
def Progress {α : Type} (dec1 : Bytes → Except Err (α × Bytes)) : Prop :=
  ∀ bs x r, dec1 bs = .ok (x, r) → r.length < bs.length

/-! ### 2. BER elements and Filter nesting -/

/-- one BER element: identifier (class, constructed bit, tag number), contents, what follows -/
structure Elem where
  cls : Nat
  cons : Bool
  num : Nat
  content : Bytes
  rest : Bytes
  deriving Repr, DecidableEq

/-- The element at the head of `bs` (X.690 §8.1.2 identifier octets — low or high tag number
    form —, §8.1.3 definite length octets — short or long form —, then that many contents
    octets).  `none` when the octets do not hold a whole definite-length element.  Any BER
    reader accepts these forms; nothing here is LDAP-specific. -/
def element (bs : Bytes) : Option Elem :=
  match bs with
  | [] => none
  | o1 :: r1 =>
    let tagPart : Option (Nat × Bytes) := if o1 % 32 = 31 then frameTagNum r1 0 else some (o1 % 32, r1)
    match tagPart with
    | none => none
    | some (num, r2) =>
      match r2 with
      | [] => none
      | l :: r3 =>
        if l = 128 then none                       -- indefinite length
        else
          let k := if 128 < l then l - 128 else 0
          if r3.length < k then none
          else
            let len := if 128 < l then frameBe (r3.take k) else l
            let body := r3.drop k
            if body.length < len then none
            else some ⟨o1 / 64, decide (o1 / 32 % 2 = 1), num, body.take len, body.drop len⟩

/-- `AfterElements n bs suf`: `suf` is what remains of `bs` after `n` whole elements -/
inductive AfterElements : Nat → Bytes → Bytes → Prop where
  | zero (bs : Bytes) : AfterElements 0 bs bs
  | succ (n : Nat) (bs suf : Bytes) (e : Elem) : element bs = some e → AfterElements n e.rest suf →
      AfterElements (n + 1) bs suf

/-- `FilterDeeper k bs`: reading the Filter that starts at `bs` takes more than `k` nested
    activations of the Filter reader — there is a chain of `k` elements `and [0]` / `or [1]` /
    `not [2]` (context class, constructed), each one a member of the previous one's contents
    (for `not`: its first member), and inside the innermost of them one more Filter position.
    A Filter position by itself is one activation, hence `FilterDeeper 0` holds of anything. -/
inductive FilterDeeper : Nat → Bytes → Prop where
  | zero (bs : Bytes) : FilterDeeper 0 bs
  | not (k : Nat) (bs : Bytes) (e : Elem) : element bs = some e → e.cls = 2 → e.cons = true → e.num = 2 →
      FilterDeeper k e.content → FilterDeeper (k + 1) bs
  | set (k : Nat) (bs : Bytes) (e : Elem) (n : Nat) (inner : Bytes) : element bs = some e → e.cls = 2 →
      e.cons = true → (e.num = 0 ∨ e.num = 1) → AfterElements n e.content inner →
      FilterDeeper k inner → FilterDeeper (k + 1) bs

/-- `SearchFilterDeeper k bs`: `bs` starts with an LDAPMessage (SEQUENCE) whose second member
    is a SearchRequest ([APPLICATION 3]) whose seventh member — the `filter` field of RFC 4511
    §4.5.1 — satisfies `FilterDeeper k`. -/
def SearchFilterDeeper (k : Nat) (bs : Bytes) : Prop :=
  ∃ env afterId op f,
    element bs = some env ∧ env.cls = 0 ∧ env.cons = true ∧ env.num = 16 ∧
    AfterElements 1 env.content afterId ∧
    element afterId = some op ∧ op.cls = 1 ∧ op.num = 3 ∧
    AfterElements 6 op.content f ∧ FilterDeeper k f

/-! ### 3. the octets of a notification -/

/-- big-endian base-256 digits without leading zeros (`0` has none) -/
def be256 (n : Nat) : Bytes :=
  if _h : n = 0 then [] else be256 (n / 256) ++ [n % 256]
termination_by n
decreasing_by omega

/-- DER length octets (X.690 §8.1.3 with §10.1: the shortest definite form) -/
def derLen (n : Nat) : Bytes :=
  if n < 128 then [n] else (128 + (be256 n).length) :: be256 n

/-- an element with a one-octet identifier -/
def der (ident : Nat) (content : Bytes) : Bytes := ident :: derLen content.length ++ content

/-- "1.3.6.1.4.1.1466.20036", RFC 4511 §4.4.1 -/
def oidNoticeOfDisconnection : Bytes :=
  [49, 46, 51, 46, 54, 46, 49, 46, 52, 46, 49, 46, 49, 52, 54, 54, 46, 50, 48, 48, 51, 54]

/-- RFC 4511 §4.4.1 with the fields `LDAPServer.receive` fills in:
    `SEQUENCE { messageID 0, [APPLICATION 24] { resultCode protocolError (2), matchedDN "",
    diagnosticMessage diag, responseName [10] "1.3.6.1.4.1.1466.20036" } }` -/
def noticeBytes (diag : Bytes) : Bytes :=
  der 0x30 ([0x02, 0x01, 0x00] ++
    der 0x78 ([0x0A, 0x01, 0x02] ++ [0x04, 0x00] ++ der 0x04 diag ++ der 0x8A oidNoticeOfDisconnection))

/-- what `LDAPClient.receive` attaches: `SEQUENCE { messageID 0, [APPLICATION 2] }` as the
    library writes it — the UnbindRequest identifier is 0x62 (constructed) where RFC 4511 §4.3
    (`[APPLICATION 2] NULL`) has 0x42; known finding F-C03 / F-C05u -/
def unbindBytes : Bytes := [0x30, 0x05, 0x02, 0x01, 0x00, 0x62, 0x00]

/-- the same with the constructed bit of the protocolOp identifier cleared: the RFC encoding -/
def unbindBytesRfc : Bytes := [0x30, 0x05, 0x02, 0x01, 0x00, 0x42, 0x00]

/-- `ProtocolError.response` for a notification tag; `diag` is the UTF-8 of `str(e)` -/
def notifBytes : Notification → Bytes → Option Bytes
  | .none, _ => none
  | .unbind, _ => some unbindBytes
  | .notice, diag => some (noticeBytes diag)

/-- the abstract Notice of Disconnection with result protocolError and diagnostic text `diag` -/
def noticeOfDisconnection (diag : Bytes) : Msg :=
  ⟨0, .extResp ⟨2, [], diag, none⟩ (some oidNoticeOfDisconnection) none, []⟩

/-- the abstract UnbindRequest with message id 0 -/
def unbindRequest : Msg := ⟨0, .unbind, []⟩

/-! ### 4. which message made `receive` fail, and what is attached for it -/

def IsUnbind (m : Msg) : Prop := m.op = .unbind

/-- ExtendedResponse whose responseName is the Notice of Disconnection OID -/
def IsNotice (m : Msg) : Prop := ∃ r v, m.op = .extResp r (some oidNoticeOfDisconnection) v

/-- protocolOp numbers of RFC 4511 §4.2–§4.12 by direction -/
def requestNumbers : List Nat := [0, 2, 3, 23]
def responseNumbers : List Nat := [1, 4, 5, 19, 24]

def isBindRequest : Op → Bool
  | .bindReq .. => true
  | _ => false

/-- `_process_incoming_message` raises ProtocolError for `m` in session `s`:
    a client refuses what is not a response and a response whose id is neither an active search
    nor an outstanding request; a server refuses what is not a request and a BindRequest while
    other operations are outstanding. -/
def Refuses (s : Sess) (m : Msg) : Prop :=
  match s.role with
  | .client => opTag m.op ∉ responseNumbers ∨ (m.id ∉ s.searches ∧ m.id ∉ s.outstanding)
  | .server => opTag m.op ∉ requestNumbers ∨ (isBindRequest m.op = true ∧ s.outstanding ≠ [])

/-- `RecvCause d s chunk cause`: `receive(chunk)` fails, and `cause` is the `request` of the
    ProtocolError — `none` when the session was already closed or the buffered data could not
    be unpacked, `some m` when the data unpacked to `pre ++ m :: post`, the messages `pre` were
    processed without error (leaving session `s'`) and `m` is a Notice of Disconnection, an
    UnbindRequest, or refused by `_process_incoming_message`. -/
def RecvCause (d : Nat) (s : Sess) (chunk : Bytes) (cause : Option Msg) : Prop :=
  let buf := s.residue ++ chunk
  (s.state = .closed ∧ cause = none) ∨
  (s.state ≠ .closed ∧ (∃ e, parseLoop s.regs d buf.length buf = .error e) ∧ cause = none) ∨
  (s.state ≠ .closed ∧ ∃ ms rest pre m post s',
    parseLoop s.regs d buf.length buf = .ok (ms, rest) ∧ ms = pre ++ m :: post ∧
    processLoop { s with residue := rest } pre = .ok s' ∧
    (IsNotice m ∨ IsUnbind m ∨ Refuses s' m) ∧ cause = some m)

/-- the wrappers `LDAPClient.receive` / `LDAPServer.receive`: a client attaches an UnbindRequest
    unless the failing message was itself an UnbindRequest or a Notice of Disconnection; a
    server attaches a Notice of Disconnection unless the failing message was an UnbindRequest -/
def attached (r : Role) (cause : Option Msg) : Notification :=
  match r, cause with
  | .client, none => .unbind
  | .server, none => .notice
  | .client, some m =>
    (match m.op with
     | .unbind => .none
     | .extResp _ (some n) _ => if n = oidNoticeOfDisconnection then .none else .unbind
     | _ => .unbind)
  | .server, some m =>
    (match m.op with
     | .unbind => .none
     | _ => .notice)

end Verif.C05More
