/-
C11, additions: specification-level vocabulary for
  * the deliveries at which a protocol error is by design (`TerminationError`),
  * the notice of disconnection as a server call (`noticeCall`, `noticeOf`).
Written from the property text ("no protocol error other than a designed termination (unbind or
notice of disconnection)") and RFC 4511 §4.3 (unbind) / §4.4.1 (notice of disconnection:
an unsolicited ExtendedResponse with responseName 1.3.6.1.4.1.1466.20036).  Nothing here looks
inside `step` / `recv`.
-/
import Verif.Spec.Joint

namespace Verif.Joint

open Verif

/-- A protocol error of the joint system is *at a designed termination* when the client has
    sent its unbind and the step is one of
    * a delivery to the server, still open, of bytes that (with what the server had buffered)
      contain the client's unbind — the error carries no notification (`.none`: a server does not
      answer an unbind with a notice);
    * a delivery to a server that is already closed (error carries the notice a closed server
      attaches);
    * a delivery to the client, which closed itself when it sent the unbind (error carries the
      unbind a closed client attaches).
    `y` is the state *before* the step, `o` the step's outcome. -/
def TerminationError (depth : Nat) (y : Sys) (st : JStep) (o : Outcome) : Prop :=
  unbindSent y ∧
  ((∃ k, st = .deliverS k ∧ y.s.state ≠ .closed ∧ o = .protocolError .none ∧
      ∃ ms r, parseLoop {} depth (y.s.residue ++ y.toS.take k).length (y.s.residue ++ y.toS.take k) = .ok (ms, r) ∧
        ∃ m ∈ ms, m.op.isUnbind = true) ∨
   (∃ k, st = .deliverS k ∧ y.s.state = .closed ∧ o = .protocolError .notice) ∨
   (∃ k, st = .deliverC k ∧ y.c.state = .closed ∧ o = .protocolError .unbind))

/-- an outcome that is not an error: the call was accepted, the flush returned bytes, the
    delivery returned messages -/
def Outcome.fine (o : Outcome) : Prop :=
  o.accepted = true ∨ (∃ b, o = .bytes b) ∨ (∃ ms, o = .msgs ms)

/-- the notification carried by an outcome that is a protocol error -/
def errorOf : Outcome → Option Notification
  | .protocolError n => some n
  | _ => none

/-- the server call that sends a Notice of Disconnection under message id `i` -/
def noticeCall (i : Int) (value : Option Bytes) (code : Int) (mdn diag : Bytes) (ctl : List Control) : Call :=
  .extendedResponse i (some Facts.oidNotice) value code mdn diag ctl

/-- the message that call puts on the wire: an ExtendedResponse named by the notice OID -/
def noticeOf (i : Int) (value : Option Bytes) (code : Int) (mdn diag : Bytes) (ctl : List Control) : Msg :=
  ⟨i, .extResp ⟨code, mdn, diag, some []⟩ (some Facts.oidNotice) value, ctl⟩

end Verif.Joint
