/-
C08 (additions) — specification-level vocabulary for the repaired history theorems and the
`receive`-level statements.  Written from the property text and the `receive` docstrings of
`_session.py`; nothing here looks inside `sendBase` / `processLoop` / `recv`.
-/
import Verif.Spec.SessionSpec

namespace Verif.C08
open Verif

/-- The known finding F-C08c, as a predicate on one step.  Same text as
    `Verif.C08.KnownDeviation` in `Props/C08.lean` (that file cannot be imported from a Spec
    file); `Props/C08More.lean` proves the two are the same proposition (`knownDev_iff`). -/
def KnownDev (s : Sess) (c : Call) : Prop :=
  s.role = .server ∧ s.state = .beforeOpen ∧ c.respId.isSome = true ∧ (step s c).2 = .ldapError

/-- "The known deviation does not occur along the run of `cs` from `s`": the predicate is asked
    only of the state each call is actually made in. -/
def NoDeviationAlong (s : Sess) : List Call → Prop
  | [] => True
  | c :: cs => ¬KnownDev s c ∧ NoDeviationAlong (step s c).1 cs

/-- What a `ProtocolError` raised by `receive` on an already CLOSED session carries as
    `.response`: `LDAPClient.receive` attaches a packed UnbindRequest whenever the error has no
    `request` (and here it has none), `LDAPServer.receive` attaches a packed Notice of
    Disconnection whenever the error's `request` is not an UnbindRequest. -/
def closedNotification : Role → Notification
  | .client => .unbind
  | .server => .notice

/-- the message is a BindRequest -/
def IsBindRequest (m : Msg) : Prop := ∃ v n c, m.op = .bindReq v n c

end Verif.C08
