/-
Specification-level vocabulary for the additional C18 / C19 / C01 statements of
Props/SmallMore.lean.  Written from the property texts (properties.jsonl C01, C18, C19), the
library's public behaviour (a control travels as the triple controlType / criticality /
controlValue of RFC 4511 §4.1.11; the registry of a session has one slot per kind of custom
type) and RFC 2696 (the paged-results control value), not from the decoder's code.
-/
import Verif.Model.Re
import Verif.Model.Session
import Verif.Spec.WF

namespace Verif

/-! ## C18: the translated pattern contains nothing the translator could not express -/

/-- does the term contain an `unsupported` node anywhere?  (`Re.unsupported` has no results and
    unit cost in the model, so a cost bound for a term containing it would say nothing about the
    library's pattern) -/
def Re.hasUnsupported : Re → Bool
  | .eps => false
  | .cls _ => false
  | .cat a b => a.hasUnsupported || b.hasUnsupported
  | .alt a b => a.hasUnsupported || b.hasUnsupported
  | .star a => a.hasUnsupported
  | .group _ a => a.hasUnsupported
  | .eos => false
  | .eosNl => false
  | .unsupported => true

/-- the pattern contains no repetition -/
def Re.starFree : Re → Bool
  | .cat a b => a.starFree && b.starFree
  | .alt a b => a.starFree && b.starFree
  | .group _ a => a.starFree
  | .star _ => false
  | _ => true

/-- A bound on the search tree of a repetition-free pattern that does not depend on the input:
    a node for the operator itself; an alternation explores both branches; a concatenation
    explores its head once and its tail once per success of the head, and a search tree has at
    most as many successes as nodes. -/
def Re.treeBound : Re → Nat
  | .cat a b => 1 + a.treeBound + a.treeBound * b.treeBound
  | .alt a b => 1 + a.treeBound + b.treeBound
  | .group _ a => 1 + a.treeBound
  | .star a => 1 + a.treeBound   -- not meaningful for repetitions (`starFree` excludes them)
  | _ => 1

/-! ## C19: the registry of a session, one flag per kind of custom type -/

/-- the flag of one kind -/
def Regs.get (r : Regs) : RegKind → Bool
  | .control => r.control
  | .filter => r.filter
  | .auth => r.auth

mutual
/-- the filter tree contains a custom filter somewhere -/
def Filter.hasCustom : Filter → Bool
  | .and fs => Filter.anyCustom fs
  | .or fs => Filter.anyCustom fs
  | .not f => Filter.hasCustom f
  | .custom _ => true
  | _ => false
def Filter.anyCustom : List Filter → Bool
  | [] => false
  | f :: fs => Filter.hasCustom f || Filter.anyCustom fs
end

/-- a search request whose filter contains a custom filter -/
def Op.hasCustomFilter : Op → Bool
  | .searchReq _ _ _ _ _ _ f _ => f.hasCustom
  | _ => false

/-- a bind request that authenticates with the custom credential -/
def Op.hasCustomCred : Op → Bool
  | .bindReq _ _ (.custom _) => true
  | _ => false

/-! ## C01: what a receiver can know of a control

On the wire a control is the triple (controlType, criticality, controlValue); the class the
sender used to build it is not transmitted.  A receiver that knows the OID builds its typed
class from the triple; the typed object keeps the received value octets (`raw`). -/

/-- the wire triple of a control -/
def Control.wire (c : Control) : Bytes × Bool × Option Bytes := (controlOid c, controlCrit c, controlValue c)

/-- the `value` attribute of the Python object: the octets given by the caller / received -/
def Control.valueAttr : Control → Option Bytes
  | .generic _ _ v => v
  | .paged _ _ _ raw => raw
  | .showDeleted _ raw => raw
  | .showDeactivated _ raw => raw
  | .custom _ _ raw => raw

/-- the OID is one for which the receiving session has a typed class -/
def knownControlOid (regs : Regs) (oid : Bytes) : Bool :=
  oid == Facts.oidPaged || oid == Facts.oidShowDeleted || oid == Facts.oidShowDeactivated ||
    (regs.control && oid == Facts.oidCustomControl)

/-- The object a receiving session builds from a wire triple:
    * paged results (RFC 2696): the value (absent = empty) must parse as
      `SEQUENCE { size INTEGER, cookie OCTET STRING }` (`decPagedValue`, the model of
      `PagedResultControl.unpack`); a value that does not parse is an error;
    * show-deleted / show-deactivated: no value syntax, the octets are kept as they are;
    * the registered custom control: the value must start with its magic;
    * any other OID: the generic control. -/
def receivedControl (regs : Regs) (oid : Bytes) (crit : Bool) (value : Option Bytes) : Except Err Control :=
  if oid = Facts.oidPaged then
    match decPagedValue (value.getD []) with
    | .ok (size, cookie) => .ok (.paged crit size cookie value)
    | .error e => .error e
  else if oid = Facts.oidShowDeactivated then .ok (.showDeactivated crit value)
  else if oid = Facts.oidShowDeleted then .ok (.showDeleted crit value)
  else if regs.control = true ∧ oid = Facts.oidCustomControl then
    if Facts.customControlMagic.isPrefixOf (value.getD []) then
      .ok (.custom crit ((value.getD []).drop Facts.customControlMagic.length) value)
    else .error .valueError
  else .ok (.generic oid crit value)

/-- what the receiver makes of a control object after it has travelled -/
def Control.received (regs : Regs) (c : Control) : Except Err Control :=
  receivedControl regs (controlOid c) (controlCrit c) (controlValue c)

/-- all controls of a message, left to right, the first error wins -/
def receivedControls (regs : Regs) : List Control → Except Err (List Control)
  | [] => .ok []
  | c :: cs =>
    match Control.received regs c with
    | .error e => .error e
    | .ok c' =>
      match receivedControls regs cs with
      | .error e => .error e
      | .ok cs' => .ok (c' :: cs')

/-- the domain of C01 with the cut on generic controls removed: the operation is well-formed
    and every control's OID is text (automatic for the typed classes); a generic control may
    carry ANY OID, a custom control object may be used whether or not the receiver registered
    the type -/
def Msg.WFLoose (regs : Regs) (m : Msg) : Prop :=
  Op.WF regs m.op ∧ ∀ c ∈ m.controls, IsText (controlOid c)

end Verif
