/-
Independent framing of a byte stream into top-level protocol data units, by the outermost
identifier and length octets only (X.690 §8.1.2–8.1.3), and the abstract notion of feeding a
session chunk by chunk.  Used by C02, C05, C06.
-/
import Verif.Model.Session

namespace Verif

inductive FrameResult where
  | incomplete                      -- the outermost unit's header or contents are not all there yet
  | bad                             -- the header is complete and cannot start an LDAPMessage
  | complete (unit rest : Bytes)    -- `unit` is a complete outer TLV, `rest` follows it
  deriving Repr, DecidableEq

/-- subsequent octets of a high-tag-number identifier: `none` = ran out of bytes;
    returns the number and what follows -/
def frameTagNum : Bytes → Nat → Option (Nat × Bytes)
  | [], _ => none
  | b :: r, acc => if 128 ≤ b then frameTagNum r (acc * 128 + b % 128) else some (acc * 128 + b, r)

def frameBe : List Nat → Nat
  | [] => 0
  | b :: r => b * 256 ^ r.length + frameBe r

/-- Frame the head of `bs`.  A header that is itself incomplete is `incomplete`; once the
    header is complete, anything but a definite-length UNIVERSAL SEQUENCE (constructed) is
    `bad`; otherwise the unit is complete iff all its content octets are present. -/
def frame (bs : Bytes) : FrameResult :=
  match bs with
  | [] => .incomplete
  | o1 :: r1 =>
    let tagPart : Option (Nat × Bytes) := if o1 % 32 = 31 then frameTagNum r1 0 else some (o1 % 32, r1)
    match tagPart with
    | none => .incomplete
    | some (num, r2) =>
      if o1 / 64 = 0 ∧ 36 < num then .bad          -- no such universal type
      else match r2 with
        | [] => .incomplete
        | l :: r3 =>
          if l = 128 then .bad                     -- indefinite length
          else
            let k := if 128 < l then l - 128 else 0
            if r3.length < k then .incomplete
            else
              let len := if 128 < l then frameBe (r3.take k) else l
              let body := r3.drop k
              if ¬(o1 / 64 = 0 ∧ o1 / 32 % 2 = 1 ∧ num = 16) then .bad   -- not a SEQUENCE
              else if body.length < len then .incomplete
              else .complete (bs.take (bs.length - body.length + len)) (body.drop len)

/-- split a stream into its complete leading units and the incomplete tail; `none` if a bad
    unit is met -/
def frames : Nat → Bytes → Option (List Bytes × Bytes)
  | 0, bs => if bs.isEmpty then some ([], []) else none
  | fuel+1, bs =>
    if bs.isEmpty then some ([], [])
    else match frame bs with
      | .incomplete => some ([], bs)
      | .bad => none
      | .complete u rest =>
        match frames fuel rest with
        | some (us, tail) => some (u :: us, tail)
        | none => none

/-- feed chunks one after the other; stops at the first call that does not return messages.
    Returns the final session, the messages returned so far (in order), and the outcome of the
    failing call if any. -/
def feed (depth : Nat) : Sess → List Bytes → Sess × List Msg × Option Outcome
  | s, [] => (s, [], none)
  | s, c :: cs =>
    match recv depth s c with
    | (s1, .msgs ms) =>
      let (s2, ms', o) := feed depth s1 cs
      (s2, ms ++ ms', o)
    | (s1, o) => (s1, [], some o)

end Verif
