/-
An independent, strict decoder from generic TLV trees to abstract messages, transcribed
production by production from the ASN.1 module of RFC 4511 (Appendix B), the encoding
restrictions of RFC 4511 §5.1 and RFC 2696 §2 (paged results control value).

It shares no code with the library model's decoder (`Verif.decMsg`): it works on the parsed
tree of `Spec/Tlv.lean`, demands the exact class / number / primitive-or-constructed form
of every element, the exact component order, minimal INTEGERs, TRUE = 0xFF, absent DEFAULT
values and absent OPTIONALs, and rejects anything extra.
-/
import Verif.Spec.Tlv
import Verif.Spec.Twos
import Verif.Model.Msg

namespace Verif.Rfc

open Verif

/-- INTEGER / ENUMERATED content: minimal two's complement (X.690 §8.3) -/
def intOf (c : Bytes) : Option Int := if Minimal c then some (twos c) else none

/-- BOOLEAN content under RFC 4511 §5.1 (3): FALSE = 00, TRUE = FF -/
def boolOf : Bytes → Option Bool
  | [0] => some false
  | [255] => some true
  | _ => none

/-- LDAPString: UTF-8 -/
def textOf (c : Bytes) : Option Bytes := if validUtf8 c then some c else none

def univInt : Tlv → Option Int
  | .prim 0 2 c => intOf c
  | _ => none

def univEnum : Tlv → Option Int
  | .prim 0 10 c => intOf c
  | _ => none

def univOctets : Tlv → Option Bytes
  | .prim 0 4 c => some c
  | _ => none

def univText : Tlv → Option Bytes
  | .prim 0 4 c => textOf c
  | _ => none

def univBool : Tlv → Option Bool
  | .prim 0 1 c => boolOf c
  | _ => none

def allOpt {α β} (f : α → Option β) : List α → Option (List β)
  | [] => some []
  | x :: xs => match f x, allOpt f xs with
    | some y, some ys => some (y :: ys)
    | _, _ => none

/-- a primitive context-tagged octet string `[n]` -/
def ctxOctets (n : Nat) : Tlv → Option Bytes
  | .prim 2 m c => if m = n then some c else none
  | _ => none

/-- split an optional leading element recognised by `f` -/
def optHead {α} (f : Tlv → Option α) : List Tlv → Option α × List Tlv
  | [] => (none, [])
  | t :: ts => match f t with
    | some a => (some a, ts)
    | none => (none, t :: ts)

/-! ### Filter ::= CHOICE { and [0] … extensibleMatch [9] } -/

/-- SubstringFilter.substrings: `initial [0]` at most once and first, `final [2]` at most
    once and last, `any [1]` in between.  SIZE (1..MAX) constraints (here, on `and`/`or`, on
    Referral and on SearchResultReference) restrict abstract values, not encodings, and are
    not enforced: the library's types admit empty lists and their encoding is still exact. -/
def substrings (l : List Tlv) : Option (Option Bytes × List Bytes × Option Bytes) :=
  let (i, l1) := optHead (ctxOctets 0) l
  -- the `any` run
  let rec anys : List Tlv → List Bytes × List Tlv
    | [] => ([], [])
    | t :: ts => match ctxOctets 1 t with
      | some a => let (as, r) := anys ts; (a :: as, r)
      | none => ([], t :: ts)
  let (as, l2) := anys l1
  let (f, l3) := optHead (ctxOctets 2) l2
  if l3.isEmpty then some (i, as, f) else none

def ava : List Tlv → Option (Bytes × Bytes)
  | [a, v] => match univText a, univOctets v with
    | some a, some v => some (a, v)
    | _, _ => none
  | _ => none

/-- MatchingRuleAssertion: matchingRule [1] OPTIONAL, type [2] OPTIONAL, matchValue [3],
    dnAttributes [4] BOOLEAN DEFAULT FALSE (so only TRUE may be present) -/
def mra (l : List Tlv) : Option (Option Bytes × Option Bytes × Bytes × Bool) :=
  let (rule, l1) := optHead (fun t => (ctxOctets 1 t).bind textOf) l
  let (attr, l2) := optHead (fun t => (ctxOctets 2 t).bind textOf) l1
  match l2 with
  | v :: l3 =>
    match ctxOctets 3 v with
    | none => none
    | some val =>
      match l3 with
      | [] => some (rule, attr, val, false)
      | [.prim 2 4 [255]] => some (rule, attr, val, true)
      | _ => none
  | [] => none

mutual
def filterOf : Tlv → Option Filter
  | .cons 2 0 kids => (filtersOf kids).map .and
  | .cons 2 1 kids => (filtersOf kids).map .or
  | .cons 2 2 [k] => (filterOf k).map .not
  | .cons 2 3 kids => (ava kids).map fun (a, v) => .eq a v
  | .cons 2 4 [a, .cons 0 16 subs] =>
    match univText a, substrings subs with
    | some a, some (i, as, f) => some (.substr a i as f)
    | _, _ => none
  | .cons 2 5 kids => (ava kids).map fun (a, v) => .ge a v
  | .cons 2 6 kids => (ava kids).map fun (a, v) => .le a v
  | .prim 2 7 c => (textOf c).map .present
  | .cons 2 8 kids => (ava kids).map fun (a, v) => .approx a v
  | .cons 2 9 kids => (mra kids).map fun (r, a, v, d) => .ext r a v d
  | _ => none
def filtersOf : List Tlv → Option (List Filter)
  | [] => some []
  | t :: ts => match filterOf t, filtersOf ts with
    | some f, some fs => some (f :: fs)
    | _, _ => none
end

/-! ### Controls -/

/-- RFC 2696 §2: realSearchControlValue ::= SEQUENCE { size INTEGER, cookie OCTET STRING } -/
def pagedValueOf (v : Bytes) : Option (Int × Bytes) :=
  match strictParseAll v with
  | some (.cons 0 16 [s, c]) =>
    match univInt s, univOctets c with
    | some s, some c => some (s, c)
    | _, _ => none
  | _ => none

/-- Control ::= SEQUENCE { controlType LDAPOID, criticality BOOLEAN DEFAULT FALSE,
    controlValue OCTET STRING OPTIONAL } -/
def controlOf : Tlv → Option Control
  | .cons 0 16 (oid :: rest) =>
    match univText oid with
    | none => none
    | some oid =>
      let (crit, r1) : Option Bool × List Tlv := match rest with
        | .prim 0 1 [255] :: r => (some true, r)
        | .prim 0 1 _ :: _ => (none, [])          -- an encoded FALSE (the default) or a non-FF TRUE
        | r => (some false, r)
      match crit with
      | none => none
      | some crit =>
        let value : Option (Option Bytes) := match r1 with
          | [] => some none
          | [v] => (univOctets v).map some
          | _ => none
        match value with
        | none => none
        | some value =>
          if oid = Facts.oidPaged then
            match value.bind pagedValueOf with
            | some (size, cookie) => some (.paged crit size cookie value)
            | none => none
          else if oid = Facts.oidShowDeleted then some (.showDeleted crit value)
          else if oid = Facts.oidShowDeactivated then some (.showDeactivated crit value)
          else some (.generic oid crit value)
  | _ => none

/-! ### LDAPResult and the protocol operations -/

/-- COMPONENTS OF LDAPResult at the head of a component list; returns the remaining
    components.  Referral ::= SEQUENCE OF URI under `[3]`. -/
def resultOf : List Tlv → Option (LdapResult × List Tlv)
  | code :: mdn :: diag :: rest =>
    match univEnum code, univText mdn, univText diag with
    | some code, some mdn, some diag =>
      match rest with
      | .cons 2 3 uris :: rest' =>
        (allOpt univText uris).map fun us => (⟨code, mdn, diag, some us⟩, rest')
      | _ => some (⟨code, mdn, diag, none⟩, rest)
    | _, _, _ => none
  | _ => none

def credOf : Tlv → Option Cred
  | .prim 2 0 c => (textOf c).map .simple
  | .cons 2 3 [m] => (univText m).map fun m => .sasl m none
  | .cons 2 3 [m, c] => match univText m, univOctets c with
    | some m, some c => some (.sasl m (some c))
    | _, _ => none
  | _ => none

def attrOf : Tlv → Option (Bytes × List Bytes)
  | .cons 0 16 [n, .cons 0 17 vals] =>
    match univText n, allOpt univOctets vals with
    | some n, some vs => some (n, vs)
    | _, _ => none
  | _ => none

def opOf : Tlv → Option Op
  | .cons 1 0 [v, n, a] =>
    match univInt v, univText n, credOf a with
    | some v, some n, some a => some (.bindReq v n a)
    | _, _, _ => none
  | .cons 1 1 kids =>
    match resultOf kids with
    | some (r, []) => some (.bindResp r none)
    | some (r, [s]) => (ctxOctets 7 s).map fun s => .bindResp r (some s)
    | _ => none
  | .prim 1 2 [] => some .unbind
  | .cons 1 3 [b, sc, dr, sl, tl, ty, f, .cons 0 16 attrs] =>
    match univText b, univEnum sc, univEnum dr, univInt sl, univInt tl, univBool ty, filterOf f, allOpt univText attrs with
    | some b, some sc, some dr, some sl, some tl, some ty, some f, some attrs =>
      if Facts.scopeValues.contains sc ∧ Facts.derefValues.contains dr then some (.searchReq b sc dr sl tl ty f attrs) else none
    | _, _, _, _, _, _, _, _ => none
  | .cons 1 4 [n, .cons 0 16 attrs] =>
    match univText n, allOpt attrOf attrs with
    | some n, some attrs => some (.searchEntry n attrs)
    | _, _ => none
  | .cons 1 5 kids =>
    match resultOf kids with
    | some (r, []) => some (.searchDone r)
    | _ => none
  | .cons 1 19 uris => (allOpt univText uris).map .searchRef
  | .cons 1 23 [n] => ((ctxOctets 0 n).bind textOf).map fun n => .extReq n none
  | .cons 1 23 [n, v] =>
    match (ctxOctets 0 n).bind textOf, ctxOctets 1 v with
    | some n, some v => some (.extReq n (some v))
    | _, _ => none
  | .cons 1 24 kids =>
    match resultOf kids with
    | some (r, rest) =>
      let (n, r1) := optHead (fun t => (ctxOctets 10 t).bind textOf) rest
      let (v, r2) := optHead (ctxOctets 11) r1
      if r2.isEmpty then some (.extResp r n v) else none
    | none => none
  | _ => none

/-- LDAPMessage ::= SEQUENCE { messageID, protocolOp, controls [0] Controls OPTIONAL } -/
def msgOf : Tlv → Option Msg
  | .cons 0 16 [id, op] =>
    match univInt id, opOf op with
    | some id, some op => some ⟨id, op, []⟩
    | _, _ => none
  | .cons 0 16 [id, op, .cons 2 0 cs] =>
    match univInt id, opOf op, allOpt controlOf cs with
    | some id, some op, some cs => some ⟨id, op, cs⟩
    | _, _, _ => none
  | _ => none

/-- the independent decoder: bytes → message, nothing left over -/
def decode (bs : Bytes) : Option Msg := (strictParseAll bs).bind msgOf

end Verif.Rfc
