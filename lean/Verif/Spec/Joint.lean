/-
C11: a client session and a server session joined by two reliable in-order byte pipes.
The composition (pipes, ghost logs of what each application sent and was handed) is
specification; the sessions themselves are the model's `step` / `recv`.
-/
import Verif.Model.Session
import Verif.Spec.SessionSpec
import Verif.Spec.WF

namespace Verif.Joint

open Verif

structure Sys where
  c : Sess := Sess.init .client
  s : Sess := Sess.init .server
  toS : Bytes := []          -- bytes in flight from the client to the server
  toC : Bytes := []          -- bytes in flight from the server to the client
  sentC : List Msg := []     -- ghost: messages put on the wire by accepted client calls, in order
  sentS : List Msg := []     -- ghost: same for the server
  gotS : List Msg := []      -- ghost: messages returned to the server application by receive
  gotC : List Msg := []      -- ghost: messages returned to the client application by receive
  deriving Inhabited

inductive JStep where
  | callC (c : Call)              -- a send-type call of the client application
  | callS (c : Call)              -- a send-type call of the server application
  | flushC (amount : Option Int)  -- data_to_send(amount) on the client, written to the pipe
  | flushS (amount : Option Int)
  | deliverS (k : Nat)            -- the first k bytes in flight are handed to the server's receive
  | deliverC (k : Nat)
  deriving Inhabited

def sentMsg (s : Sess) (c : Call) (o : Outcome) : List Msg :=
  if c.isSend ∧ o.accepted then (match msgOf s c with | some m => [m] | none => []) else []

def msgsOf : Outcome → List Msg
  | .msgs ms => ms
  | _ => []

/-- one step of the joint system; `depth` is the decoders' recursion budget -/
def jstep (depth : Nat) (y : Sys) : JStep → Sys × Outcome
  | .callC c =>
    let (c', o) := step y.c c
    ({ y with c := c', sentC := y.sentC ++ sentMsg y.c c o }, o)
  | .callS c =>
    let (s', o) := step y.s c
    ({ y with s := s', sentS := y.sentS ++ sentMsg y.s c o }, o)
  | .flushC a =>
    let (c', o) := step y.c (.drain a)
    ({ y with c := c', toS := y.toS ++ drainedOf o }, o)
  | .flushS a =>
    let (s', o) := step y.s (.drain a)
    ({ y with s := s', toC := y.toC ++ drainedOf o }, o)
  | .deliverS k =>
    let (s', o) := recv depth y.s (y.toS.take k)
    ({ y with s := s', toS := y.toS.drop k, gotS := y.gotS ++ msgsOf o }, o)
  | .deliverC k =>
    let (c', o) := recv depth y.c (y.toC.take k)
    ({ y with c := c', toC := y.toC.drop k, gotC := y.gotC ++ msgsOf o }, o)

def jrun (depth : Nat) (y : Sys) : List JStep → Sys × List Outcome
  | [] => (y, [])
  | st :: sts =>
    let (y1, o) := jstep depth y st
    let (y2, os) := jrun depth y1 sts
    (y2, o :: os)

/-! ### admissibility: what "each application only makes calls its session accepts and answers
    requests with responses of the matching kind" means -/

/-- is `resp` a response call of the kind that answers a request of operation `req`? -/
def matchingKind (req : Op) (resp : Call) : Bool :=
  match req, resp with
  | .bindReq .., .bindResponse .. => true
  | .searchReq .., .entry .. => true
  | .searchReq .., .reference .. => true
  | .searchReq .., .done .. => true
  | .extReq .., .extendedResponse _ name _ _ _ _ _ => name != some Facts.oidNotice
  | _, _ => false

def isFinalCall : Call → Bool
  | .bindResponse .. | .extendedResponse .. | .done .. => true
  | _ => false

/-- the request with id `i` that the server application has been handed and not yet finally
    answered (determined from the ghost logs only) -/
def openRequest (y : Sys) (i : Int) : Option Op :=
  match y.gotS.find? (fun m => m.id == i) with
  | none => none
  | some m =>
    if y.sentS.any (fun r => r.id == i && (match r.op with | .searchEntry .. | .searchRef .. => false | _ => true))
    then none else some m.op

/-- text arguments of a call are text; filters etc. are well formed for sessions without custom types -/
def CallWF (depth : Nat) (s : Sess) (c : Call) : Prop :=
  match msgOf s c with
  | some m => Msg.WF {} m ∧ m.op.filterDepth < depth
  | none => True

def Admissible (depth : Nat) (y : Sys) : JStep → Prop
  | .callC c =>
    (match c with | .bind .. | .search .. | .extended .. | .unbind => True | _ => False) ∧
      (step y.c c).2.accepted = true ∧ CallWF depth y.c c
  | .callS c =>
    (∃ i req, c.respId = some i ∧ openRequest y i = some req ∧ matchingKind req c = true) ∧
      (step y.s c).2.accepted = true ∧ CallWF depth y.s c
  | _ => True

def AdmissibleRun (depth : Nat) : Sys → List JStep → Prop
  | _, [] => True
  | y, st :: sts => Admissible depth y st ∧ AdmissibleRun depth (jstep depth y st).1 sts

/-- nothing in flight, nothing pending, nothing half-received -/
def Quiescent (y : Sys) : Prop :=
  y.toS = [] ∧ y.toC = [] ∧ y.c.out = [] ∧ y.s.out = [] ∧ y.c.residue = [] ∧ y.s.residue = []

/-- BEFORE_OPEN and OPENED are treated alike -/
def stateClass : SState → Nat
  | .beforeOpen => 0 | .opened => 0 | .binding => 1 | .closed => 2

def sameSet (a b : List Int) : Prop := ∀ i, i ∈ a ↔ i ∈ b

/-- the client has sent an unbind (the designed termination in these histories) -/
def unbindSent (y : Sys) : Prop := ∃ m ∈ y.sentC, m.op.isUnbind = true

end Verif.Joint
