/-
Specification-level vocabulary for the additional C09 statements (Props/C09More.lean).

Everything here is written from the text of property C09 and from RFC 4511; nothing mentions
`clientProcess`, `processLoop`, `recv` or `step`.

The id rule of C09:
  * a delivered message is accepted iff it is a response and its id belongs to an operation still
    in progress;
  * a search stays in progress across any number of responses until its SearchResultDone;
  * every other operation completes on its first response (of whatever response kind).
-/
import Verif.Model.Session

namespace Verif.C09
open Verif

/-- RFC 4511 §4.1.1: the protocolOp alternatives that are responses -/
def isResponseOp : Op → Bool
  | .bindResp .. | .searchEntry .. | .searchDone .. | .searchRef .. | .extResp .. => true
  | .bindReq .. | .unbind | .searchReq .. | .extReq .. => false

/-- RFC 4511 §4.5.2: SearchResultDone, the message that ends a search -/
def isSearchDone : Op → Bool
  | .searchDone .. => true
  | _ => false

/-- RFC 4511 §4.4.1: the OID of the Notice of Disconnection, "1.3.6.1.4.1.1466.20036" in ASCII -/
def noticeOid : Bytes :=
  [49, 46, 51, 46, 54, 46, 49, 46, 52, 46, 49, 46, 49, 52, 54, 54, 46, 50, 48, 48, 51, 54]

/-- RFC 4511 §4.4.1: an ExtendedResponse whose responseName is the Notice of Disconnection OID.
    Such a message ends the connection instead of answering an operation. -/
def isNoticeOfDisconnection : Op → Bool
  | .extResp _ (some n) _ => n == noticeOid
  | _ => false

/-- the client calls that start a search -/
def isSearchCall : Call → Bool
  | .search .. => true
  | _ => false

/-- the calls that deliver bytes -/
def isReceiveCall : Call → Bool
  | .receive .. => true
  | _ => false

/-- remove an id from a set of ids (the lists are read as sets: only membership matters) -/
def dropId (x : Int) (l : List Int) : List Int := l.filter (fun y => decide (y ≠ x))

/-- the ids in progress (`inProgress`) and the ids of those that are searches (`searching`)
    after one accepted response:
      * id of a search, message is its done  → the id is retired from both sets;
      * id of a search, any other response   → nothing changes;
      * id of any other operation            → the id is retired (first response completes it). -/
def afterResponse (inProgress searching : List Int) (m : Msg) : List Int × List Int :=
  if m.id ∈ searching then
    if isSearchDone m.op then (dropId m.id inProgress, dropId m.id searching)
    else (inProgress, searching)
  else (dropId m.id inProgress, searching)

/-- every message of a delivery is acceptable, in order: each is a response whose id is in
    progress at the moment it is looked at (i.e. after the earlier messages of the same delivery
    have retired their ids) -/
def AcceptAll : (inProgress searching : List Int) → List Msg → Prop
  | _, _, [] => True
  | o, sr, m :: ms =>
    isResponseOp m.op = true ∧ m.id ∈ o ∧
      AcceptAll (afterResponse o sr m).1 (afterResponse o sr m).2 ms

/-- the bookkeeping after a whole accepted delivery -/
def afterAll : (inProgress searching : List Int) → List Msg → List Int × List Int
  | o, sr, [] => (o, sr)
  | o, sr, m :: ms => afterAll (afterResponse o sr m).1 (afterResponse o sr m).2 ms

instance decAcceptAll : (o sr : List Int) → (ms : List Msg) → Decidable (AcceptAll o sr ms)
  | _, _, [] => isTrue trivial
  | o, sr, m :: ms =>
    have := decAcceptAll (afterResponse o sr m).1 (afterResponse o sr m).2 ms
    inferInstanceAs (Decidable (_ ∧ _ ∧ _))

end Verif.C09
