/-
C19: several sessions side by side, and what registering a custom type means.
-/
import Verif.Model.Session
import Verif.Spec.WF

namespace Verif.Isolation

open Verif

/-- a family of sessions indexed by name; a joint history tags each call with a session -/
abbrev Family := Nat → Sess

def stepAt (f : Family) (i : Nat) (c : Call) : Family × Outcome :=
  let (s', o) := step (f i) c
  (fun j => if j = i then s' else f j, o)

/-- run an interleaved history; the outcome list is tagged with the session index -/
def runAll (f : Family) : List (Nat × Call) → Family × List (Nat × Outcome)
  | [] => (f, [])
  | (i, c) :: w =>
    let (f1, o) := stepAt f i c
    let (f2, os) := runAll f1 w
    (f2, (i, o) :: os)

/-- the calls / outcomes that belong to session `i`, in order -/
def proj {α} (i : Nat) (w : List (Nat × α)) : List α := (w.filter (·.1 == i)).map (·.2)

end Verif.Isolation
