/-
RFC 4515 §3 (string representation of search filters) as an inductive relation between a
filter tree and the octets of a sentence that denotes it — one constructor per production,
with every freedom the grammar gives (escapes in either hex case, raw octets, empty values,
options, OIDs, `dn` in any letter case) plus the decoration the library documents as
tolerated (spaces after `(`, and before / between / after the sub-filters of `& | !`).
It plays the role of the independent reference parser of C14 and shares nothing with the
model's parser.
-/
import Verif.Model.FilterText

namespace Verif.Rfc4515

open Verif

def sp (n : Nat) : Bytes := List.replicate n 32

/-! ### RFC 4512 §1.4 / §2.5: attributedescription, oid -/

def isLeadKeyChar (c : Nat) : Bool := (65 ≤ c && c ≤ 90) || (97 ≤ c && c ≤ 122)
def isKeyCh (c : Nat) : Bool := isLeadKeyChar c || (48 ≤ c && c ≤ 57) || c == 45

/-- descr = keystring = leadkeychar *keychar -/
def IsDescr : Bytes → Prop
  | [] => False
  | c :: r => isLeadKeyChar c = true ∧ ∀ x ∈ r, isKeyCh x = true

/-- number = DIGIT / ( LDIGIT 1*DIGIT ) -/
def IsNumber : Bytes → Prop
  | [] => False
  | [c] => 48 ≤ c ∧ c ≤ 57
  | c :: r => 49 ≤ c ∧ c ≤ 57 ∧ ∀ x ∈ r, 48 ≤ x ∧ x ≤ 57

/-- numericoid = number 1*( DOT number ), given as its list of arcs -/
def IsNumericOid (arcs : List Bytes) : Prop := 2 ≤ arcs.length ∧ ∀ a ∈ arcs, IsNumber a

/-- oid = descr / numericoid -/
inductive IsOid : Bytes → Prop where
  | descr (d : Bytes) : IsDescr d → IsOid d
  | numeric (arcs : List Bytes) : IsNumericOid arcs → IsOid (joinWith [46] arcs)

/-- attributedescription = attributetype options;  options = *( SEMI option );
    option = 1*keychar -/
inductive IsAttrDesc : Bytes → Prop where
  | mk (oid : Bytes) (opts : List Bytes) : IsOid oid → (∀ o ∈ opts, o ≠ [] ∧ ∀ x ∈ o, isKeyCh x = true) →
      IsAttrDesc (oid ++ (opts.map (fun o => 59 :: o)).flatten)

/-! ### valueencoding = 0*(normal / escaped) -/

/-- `ValEnc v t`: the text octets `t` encode the value octets `v`.  A raw octet is anything
    but NUL, `(`, `)`, `*`, `\` (UTF1SUBSET / UTFMB, without demanding well-formed UTF-8 — a
    superset of the grammar); an escape is `\` and two hex digits of either case. -/
inductive ValEnc : Bytes → Bytes → Prop where
  | nil : ValEnc [] []
  | raw (b : Nat) (v t : Bytes) : b < 256 → b ≠ 0 → b ≠ 40 → b ≠ 41 → b ≠ 42 → b ≠ 92 →
      ValEnc v t → ValEnc (b :: v) (b :: t)
  | esc (h1 h2 : Nat) (v t : Bytes) : isHex h1 = true → isHex h2 = true →
      ValEnc v t → ValEnc ((hexVal h1 * 16 + hexVal h2) :: v) (92 :: h1 :: h2 :: t)

/-- the word `dn` in any letter case -/
def IsDnWord (w : Bytes) : Prop := w = [100, 110] ∨ w = [68, 78] ∨ w = [68, 110] ∨ w = [100, 78]

/-- the `any` part of a substring: `*` followed by `value *` for each component -/
inductive AnyEnc : List Bytes → Bytes → Prop where
  | nil : AnyEnc [] [42]
  | cons (v t : Bytes) (vs : List Bytes) (ts : Bytes) : v ≠ [] → ValEnc v t → AnyEnc vs ts →
      AnyEnc (v :: vs) ([42] ++ t ++ ts)

/-- optional initial / final component: absent ↔ empty text -/
inductive OptEnc : Option Bytes → Bytes → Prop where
  | none : OptEnc none []
  | some (v t : Bytes) : v ≠ [] → ValEnc v t → OptEnc (some v) t

mutual
/-- `Sent f t`: the octets `t` are a sentence of `filter` denoting `f` -/
inductive Sent : Filter → Bytes → Prop where
  | and (fs : List Filter) (body : Bytes) (a b : Nat) : fs ≠ [] → SentList fs body →
      Sent (.and fs) ([40] ++ sp a ++ [38] ++ sp b ++ body ++ [41])
  | or (fs : List Filter) (body : Bytes) (a b : Nat) : fs ≠ [] → SentList fs body →
      Sent (.or fs) ([40] ++ sp a ++ [124] ++ sp b ++ body ++ [41])
  | not (f : Filter) (t : Bytes) (a b c : Nat) : Sent f t →
      Sent (.not f) ([40] ++ sp a ++ [33] ++ sp b ++ t ++ sp c ++ [41])
  | eq (a v t : Bytes) (k : Nat) : IsAttrDesc a → ValEnc v t →
      Sent (.eq a v) ([40] ++ sp k ++ a ++ [61] ++ t ++ [41])
  | approx (a v t : Bytes) (k : Nat) : IsAttrDesc a → ValEnc v t →
      Sent (.approx a v) ([40] ++ sp k ++ a ++ [126, 61] ++ t ++ [41])
  | ge (a v t : Bytes) (k : Nat) : IsAttrDesc a → ValEnc v t →
      Sent (.ge a v) ([40] ++ sp k ++ a ++ [62, 61] ++ t ++ [41])
  | le (a v t : Bytes) (k : Nat) : IsAttrDesc a → ValEnc v t →
      Sent (.le a v) ([40] ++ sp k ++ a ++ [60, 61] ++ t ++ [41])
  | present (a : Bytes) (k : Nat) : IsAttrDesc a →
      Sent (.present a) ([40] ++ sp k ++ a ++ [61, 42, 41])
  | substr (a : Bytes) (i : Option Bytes) (any : List Bytes) (f : Option Bytes) (ti tany tf : Bytes) (k : Nat) :
      IsAttrDesc a → OptEnc i ti → AnyEnc any tany → OptEnc f tf →
      (i.isSome = true ∨ any ≠ [] ∨ f.isSome = true) →
      Sent (.substr a i any f) ([40] ++ sp k ++ a ++ [61] ++ ti ++ tany ++ tf ++ [41])
  /-- extensible, first form: attr [dnattrs] [matchingrule] ":=" value -/
  | extAttr (a : Bytes) (dn : Bool) (dnw : Bytes) (rule : Option Bytes) (v t : Bytes) (k : Nat) :
      IsAttrDesc a → (dn = true → IsDnWord dnw) →
      (match rule with | none => True | some r => IsOid r ∧ (dn = false → ¬IsDnWord r)) → ValEnc v t →
      Sent (.ext rule (some a) v dn)
        ([40] ++ sp k ++ a ++ (if dn then [58] ++ dnw else []) ++
          (match rule with | none => [] | some r => [58] ++ r) ++ [58, 61] ++ t ++ [41])
  /-- extensible, second form: [dnattrs] matchingrule ":=" value -/
  | extRule (dn : Bool) (dnw : Bytes) (r : Bytes) (v t : Bytes) (k : Nat) :
      (dn = true → IsDnWord dnw) → IsOid r → (dn = false → ¬IsDnWord r) → ValEnc v t →
      Sent (.ext (some r) none v dn)
        ([40] ++ sp k ++ (if dn then [58] ++ dnw else []) ++ [58] ++ r ++ [58, 61] ++ t ++ [41])
/-- `filterlist = 1*filter`, with tolerated spaces after each element -/
inductive SentList : List Filter → Bytes → Prop where
  | nil : SentList [] []
  | cons (f : Filter) (t : Bytes) (k : Nat) (fs : List Filter) (ts : Bytes) : Sent f t → SentList fs ts →
      SentList (f :: fs) (t ++ sp k ++ ts)
end

end Verif.Rfc4515
