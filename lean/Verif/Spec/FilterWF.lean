/-
Domain of the filter-text properties: which filter trees have a text form that denotes them.
-/
import Verif.Model.FilterText

namespace Verif

def isDnWord (b : Bytes) : Bool := b.map lowerAscii == [100, 110]

/-- a value component that the text form can carry: any octets, but not the empty string -/
def NonEmpty (b : Bytes) : Prop := b ≠ []

mutual
/-- Trees whose text form denotes them.  Attribute descriptions and matching rules match the
    library's attribute pattern (a superset of RFC 4512 attributedescription — see known
    finding F-C15d); `and`/`or` lists are non-empty (RFC 4515 `filterlist = 1*filter`);
    substring components are non-empty and there is at least one (RFC 4517 §3.3.30: an absent
    component and an empty one have the same text); an extensible match has an attribute, a
    rule or the dn flag, its attribute if present is non-empty, and its rule is not the word
    `dn` unless the dn flag precedes it in the text.  All values are byte strings. -/
def Filter.WFText : Filter → Prop
  | .and fs => fs ≠ [] ∧ Filter.WFTexts fs
  | .or fs => fs ≠ [] ∧ Filter.WFTexts fs
  | .not f => Filter.WFText f
  | .eq a v | .ge a v | .le a v | .approx a v => validAttr a = true ∧ IsBytes v
  | .present a => validAttr a = true
  | .substr a i any f =>
    validAttr a = true ∧
      (match i with | none => True | some x => x ≠ [] ∧ IsBytes x) ∧
      (∀ x ∈ any, x ≠ [] ∧ IsBytes x) ∧
      (match f with | none => True | some x => x ≠ [] ∧ IsBytes x) ∧
      (i.isSome = true ∨ any ≠ [] ∨ f.isSome = true)
  | .ext rule attr v dn =>
    (match attr with | none => True | some a => validAttr a = true) ∧
      (match rule with | none => True | some r => validAttr r = true ∧ (dn = false → isDnWord r = false)) ∧
      (attr.isSome = true ∨ rule.isSome = true ∨ dn = true) ∧ IsBytes v
  | .custom _ => False
def Filter.WFTexts : List Filter → Prop
  | [] => True
  | f :: fs => Filter.WFText f ∧ Filter.WFTexts fs
end

mutual
/-- every attribute description and matching rule in the tree matches the attribute pattern -/
def Filter.AttrsValid : Filter → Prop
  | .and fs | .or fs => Filter.AttrsValids fs
  | .not f => Filter.AttrsValid f
  | .eq a _ | .ge a _ | .le a _ | .approx a _ | .present a | .substr a _ _ _ => validAttr a = true
  | .ext rule attr _ _ =>
    (match attr with | none => True | some a => validAttr a = true) ∧
      (match rule with | none => True | some r => validAttr r = true)
  | .custom _ => False
def Filter.AttrsValids : List Filter → Prop
  | [] => True
  | f :: fs => Filter.AttrsValid f ∧ Filter.AttrsValids fs
end

/-- octets that may appear raw in an RFC 4515 value: printable ASCII other than ( ) * \ -/
def safeValueChar (b : Nat) : Bool := 32 ≤ b && b < 127 && b != cLParen && b != cRParen && b != cStar && b != cBackslash

/-- RFC 4515 `valueencoding` restricted to what the library writes: safe raw characters and
    `\hh` escapes -/
def IsEscapedValue : Bytes → Prop
  | [] => True
  | b :: r =>
    if b = cBackslash then
      match r with
      | h1 :: h2 :: r' => isHex h1 = true ∧ isHex h2 = true ∧ IsEscapedValue r'
      | _ => False
    else safeValueChar b = true ∧ IsEscapedValue r

end Verif
