/-
Specification-level vocabulary for the acceptance theorems of C08/C10 and for the ghost
characterisation of a server's outstanding requests (Props/C10More.lean).

Everything here is written from the property texts (C08, C10) and RFC 4511 (§4.1.1 message
envelope, §4.2 Bind: "clients ... MUST NOT send further requests until receiving the bind
response", §4.3 Unbind, §4.4.1 Notice of Disconnection, §4.5.2 search result entries and
references precede the SearchResultDone).  Nothing here calls `step`, `sendBase`,
`serverSend`, `processLoop`, or reads a field of `Sess`: the definitions see calls, outcomes
and messages only.
-/
import Verif.Spec.SessionSpec

namespace Verif.C10More
open Verif

/-! ### kinds of calls -/

/-- client request calls (the operations RFC 4511 lets a client start, other than unbind) -/
def isRequestCall : Call → Bool
  | .bind .. | .search .. | .extended .. => true
  | _ => false

/-- the bind request call -/
def isBindRequest : Call → Bool
  | .bind .. => true
  | _ => false

/-- server response calls: the five methods that answer a request by message id -/
def isResponseCall : Call → Bool
  | .bindResponse .. | .extendedResponse .. | .entry .. | .reference .. | .done .. => true
  | _ => false

/-- responses that complete an operation (RFC 4511: BindResponse, ExtendedResponse,
    SearchResultDone); a SearchResultEntry / SearchResultReference does not -/
def isFinalResponse : Call → Bool
  | .bindResponse .. | .extendedResponse .. | .done .. => true
  | _ => false

/-- the call is an ExtendedResponse carrying the Notice of Disconnection OID
    1.3.6.1.4.1.1466.20036 (RFC 4511 §4.4.1) -/
def isNoticeCall : Call → Bool
  | .extendedResponse _ name .. => name == some Facts.oidNotice
  | _ => false

/-- C08: "while BINDING nothing but bind traffic or a termination (unbind, notice of
    disconnection) can be sent".  For the response calls of a server this leaves the bind
    response and the notice of disconnection. -/
def responseAllowedWhileBinding (c : Call) : Bool :=
  match c with
  | .bindResponse .. => true
  | c => isNoticeCall c

/-- ... and for the request calls of a client it leaves the bind request (a further step of
    a multi-step SASL bind). -/
def requestAllowedWhileBinding (c : Call) : Bool := isBindRequest c

/-! ### observations: a call together with what it returned -/

/-- one observed step of a history -/
abbrev Obs := Call × Outcome

/-- request messages that open an operation on the server (RFC 4511 §4.1.1 protocolOp
    choices modelled here; the unbind request opens nothing and is never returned by
    `receive`) -/
def opensOperation : Op → Bool
  | .bindReq .. | .searchReq .. | .extReq .. => true
  | _ => false

/-- the step handed request `i` to the application: `receive` returned a message list that
    contains a request with message id `i` -/
def Delivers (e : Obs) (i : Int) : Prop :=
  ∃ chunk ms, e = (.receive chunk, .msgs ms) ∧ ∃ m ∈ ms, m.id = i ∧ opensOperation m.op = true

/-- the step is an accepted final response for request `i` -/
def Retires (e : Obs) (i : Int) : Prop :=
  isFinalResponse e.1 = true ∧ e.1.respId = some i ∧ e.2.accepted = true

/-- `receive` raised `ProtocolError` -/
def raisedProtocolError (e : Obs) : Bool :=
  match e.1, e.2 with
  | .receive _, .protocolError _ => true
  | _, _ => false

/-- an accepted unbind call -/
def acceptedUnbind (e : Obs) : Bool :=
  match e.1 with
  | .unbind => e.2.accepted
  | _ => false

/-- the step ends the session (C08: "CLOSED (unbind, notice of disconnection, or protocol
    error)"): an accepted unbind call, an accepted notice of disconnection, or a
    `ProtocolError` raised by `receive` -/
def terminates (e : Obs) : Bool :=
  acceptedUnbind e || raisedProtocolError e || (isNoticeCall e.1 && e.2.accepted)

/-- terminations that abandon every operation still in progress: unbind (RFC 4511 §4.3
    "terminate ... and abandon any outstanding operations") and a protocol error.  A notice
    of disconnection is an ordinary (final) response as far as the bookkeeping goes. -/
def abandonsAll (e : Obs) : Bool := acceptedUnbind e || raisedProtocolError e

/-- the history was ended by a step that abandons everything: its FIRST terminating step is
    an unbind or a protocol error (later steps act on a closed session and change nothing) -/
def Abandoned (h : List Obs) : Prop :=
  ∃ e, h.find? terminates = some e ∧ abandonsAll e = true

/-- C10's "currently outstanding", from calls and outcomes only: request `i` was delivered
    by some step and no LATER step is an accepted final response carrying `i` -/
def OpenIn (h : List Obs) (i : Int) : Prop :=
  ∃ pre e post, h = pre ++ e :: post ∧ Delivers e i ∧ ∀ e' ∈ post, ¬Retires e' i

/-- the observed history of a run: every call paired with its outcome -/
def observed (cs : List Call) (os : List Outcome) : List Obs := cs.zip os

end Verif.C10More
