/-
Specification-level vocabulary for the "a reader never consumes bytes beyond the value it
returns" clause of C07, on ARBITRARY input (not only on what the writers emit).

Written from the property text and X.690 §8.1 (a value is identifier octets, length octets
and exactly `length` content octets; whatever follows belongs to the next value).  Nothing
here looks inside a reader: a reader is any function `Bytes → Except Err (α × Bytes)`, and the
only model function mentioned is `readHeader`, the observable `peek_header()`, which supplies
the two numbers (`hlen` = identifier + length octets, `len` = declared content length) that the
clause is about.
-/
import Verif.Model.Ber

namespace Verif.C07

open Verif

/-- The tag check a reader called with expected tag `e` performs on a header tag `t`:
    `none` (the call shape `read_x(header=h)`) accepts every tag. -/
def TagAccepted (e : Option Tag) (t : Tag) : Prop := ∀ x, e = some x → t = x

instance (e : Option Tag) (t : Tag) : Decidable (TagAccepted e t) :=
  match e with
  | none => .isTrue (by intro x h; cases h)
  | some y =>
    if h : t = y then .isTrue (by intro x hx; cases hx; exact h)
    else .isFalse (fun hh => h (hh y rfl))

/-- `bs` starts with one complete value described by `hd`: header octets `hdr`, content `c`,
    and `rest` is everything after it. -/
structure ValueAt (bs : Bytes) (hd : Header) (hdr c rest : Bytes) : Prop where
  split  : bs = hdr ++ c ++ rest
  hdrLen : hdr.length = hd.hlen
  cLen   : c.length = hd.len

/-- The reader `r`, having returned `(v, rest)` on `bs`, consumed exactly one value and nothing
    beyond it:

    * `bs = consumed ++ rest`, and `consumed` is as long as the header says
      (identifier + length octets + declared content length);
    * the result depends on `consumed` only: with ANY other bytes after `consumed` the reader
      returns the same value, the same header is seen, and those other bytes come back
      untouched as the rest;
    * `consumed` is also the least the reader needs: on every strict prefix of it the reader
      does not return, it raises `NotEnougData`. -/
def NoOverRead {α : Type} (r : Bytes → Except Err (α × Bytes)) (bs : Bytes) (v : α)
    (rest : Bytes) : Prop :=
  ∃ hd consumed,
    readHeader bs = .ok hd ∧
    bs = consumed ++ rest ∧
    consumed.length = hd.hlen + hd.len ∧
    (∀ other, readHeader (consumed ++ other) = .ok hd ∧ r (consumed ++ other) = .ok (v, other)) ∧
    (∀ p q, consumed = p ++ q → q ≠ [] → r p = .error .notEnough)

/-- `bs` is too short for the value its own header announces: the header cannot be completed,
    or it is complete and acceptable but fewer than `hlen + len` octets are there. -/
def TooShort (e : Option Tag) (bs : Bytes) : Prop :=
  readHeader bs = .error .notEnough ∨
  ∃ hd, readHeader bs = .ok hd ∧ TagAccepted e hd.tag ∧ bs.length < hd.hlen + hd.len

end Verif.C07
