/-
Abstract specification of a session's visible state, transcribed from the `SessionState`
docstring of `_session.py`, and the ghost observations (what a call sent / drained) that the
session properties C08, C09, C10, C12 are stated over.  Nothing here calls `step`.
-/
import Verif.Model.Session

namespace Verif

/-- protocol events, as seen from outside: derived from the call and its *outcome* only -/
inductive Ev where
  | traffic        -- a message other than bind traffic was sent or received
  | bindStart      -- a BindRequest was sent (client) or received (server)
  | bindDone       -- a BindResponse whose result is not saslBindInProgress was sent / received
  | bindContinue   -- a BindResponse with saslBindInProgress was sent / received
  | terminate      -- unbind or notice of disconnection sent / received, or protocol error
  deriving DecidableEq, Repr

/-- the documented automaton -/
def specNext : SState → Ev → SState
  | .closed, _ => .closed
  | _, .terminate => .closed
  | _, .bindStart => .binding
  | _, .bindDone => .opened
  | .beforeOpen, .traffic => .opened
  | .beforeOpen, .bindContinue => .opened
  | s, .traffic => s
  | s, .bindContinue => s

def Outcome.accepted : Outcome → Bool
  | .sent _ => true
  | .unit => true
  | _ => false

def Call.isSend : Call → Bool
  | .bind .. | .search .. | .extended .. | .unbind | .bindResponse .. | .extendedResponse ..
  | .entry .. | .reference .. | .done .. => true
  | _ => false

/-- the message a send call puts on the wire if it is accepted (ids of client requests are
    the session's next id) -/
def msgOf (s : Sess) : Call → Option Msg
  | .bind dn cred cs => some ⟨s.counter, .bindReq Facts.ldapVersion dn cred, cs⟩
  | .search b sc dr sl tl ty f attrs cs =>
    some ⟨s.counter, .searchReq b sc dr sl tl ty (f.getD (.present Facts.defaultSearchAttr)) attrs, cs⟩
  | .extended n v cs => some ⟨s.counter, .extReq n v, cs⟩
  | .unbind => some ⟨0, .unbind, []⟩
  | .bindResponse id sasl code mdn diag cs => some ⟨id, .bindResp ⟨code, mdn, diag, some []⟩ sasl, cs⟩
  | .extendedResponse id n v code mdn diag cs => some ⟨id, .extResp ⟨code, mdn, diag, some []⟩ n v, cs⟩
  | .entry id n attrs cs => some ⟨id, .searchEntry n attrs, cs⟩
  | .reference id uris cs => some ⟨id, .searchRef uris, cs⟩
  | .done id code mdn diag cs => some ⟨id, .searchDone ⟨code, mdn, diag, some []⟩, cs⟩
  | _ => none

/-- event of one message, as sent (`sent = true`) or received -/
def evOfMsg (m : Msg) : Ev :=
  match m.op with
  | .unbind => .terminate
  | .bindReq .. => .bindStart
  | .bindResp r _ => if r.code = Facts.codeSaslBindInProgress then .bindContinue else .bindDone
  | .extResp _ (some n) _ => if n = Facts.oidNotice then .terminate else .traffic
  | _ => .traffic

/-- the events of a call, computed from the call and its outcome only -/
def events (s : Sess) (c : Call) (o : Outcome) : List Ev :=
  match c, o with
  | .receive _, .msgs ms => ms.map evOfMsg
  | .receive _, .protocolError _ => [.terminate]
  | c, o =>
    if c.isSend ∧ o.accepted then
      match msgOf s c with
      | some m => [evOfMsg m]
      | none => []
    else []

/-- bytes a call returned to the caller through the drain operation -/
def drainedOf : Outcome → Bytes
  | .bytes b => b
  | _ => []

/-- bytes a call put on the wire: the encoding of its message iff it was accepted -/
def sentOf (s : Sess) (c : Call) (o : Outcome) : Bytes :=
  if c.isSend ∧ o.accepted then
    match msgOf s c with
    | some m => encMsg m
    | none => []
  else []

/-- ghost totals over a history -/
def totals (s : Sess) : List Call → Bytes × Bytes   -- (all drained, all sent)
  | [] => ([], [])
  | c :: cs =>
    let (s1, o) := step s c
    let (d, w) := totals s1 cs
    (drainedOf o ++ d, sentOf s c o ++ w)

/-- ids returned by accepted client request calls over a history, in call order -/
def issuedIds (s : Sess) : List Call → List Int
  | [] => []
  | c :: cs =>
    let (s1, o) := step s c
    match c, o with
    | .bind .., .sent id | .search .., .sent id | .extended .., .sent id => id :: issuedIds s1 cs
    | _, _ => issuedIds s1 cs

/-- the events of a whole history -/
def historyEvents (s : Sess) : List Call → List Ev
  | [] => []
  | c :: cs => events s c (step s c).2 ++ historyEvents (step s c).1 cs

/-- id carried by a server response call -/
def Call.respId : Call → Option Int
  | .bindResponse id .. | .extendedResponse id .. | .entry id .. | .reference id .. | .done id .. => some id
  | _ => none

/-- reachability from a fresh session -/
inductive Reachable : Sess → Prop where
  | init (r : Role) : Reachable (Sess.init r)
  | step (s : Sess) (c : Call) : Reachable s → Reachable (step s c).1

end Verif
