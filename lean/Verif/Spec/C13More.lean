/-
Specification-level definitions for the additional C13 / C15 statements (Props/C13More.lean).

* `Filter.AttrsRfc`, `Filter.ExtRfc`: the RFC-side domain of "the text form of a filter is an
  RFC 4515 sentence" — every attribute description is an RFC 4512 `attributedescription`, every
  matching rule an RFC 4512 `oid`, and every extensible match names an attribute or a rule
  (RFC 4511 §4.5.1.7.7: "If the type field is absent, the matchingRule MUST be present";
  RFC 4515 §3: `extensible = ( attr [dnattrs] [matchingrule] … ) / ( [dnattrs] matchingrule … )`).
* `IsSingleArcAttr`: the recorded deviation F-C15d (a `numericoid` of one arc only, with options).
* `FErrZ`, `parseFilterTextZ` …: a shadow of `LDAPFilter.from_string` in which **every
  subtraction of the Python source is evaluated in ℤ** (Python `int`), so that a negative
  length is representable.  A difference that is reported (`FilterSyntaxError.length`,
  `.offset`) is carried as the integer it is; a difference that is used as an index or a slice
  length goes through `natOf`, which fails with the distinguished error `negative` when the
  integer is below zero (Python would then index / slice from the end — a different program).
  Sums of non-negative quantities (`read += …`, `offset + read`) cannot go below zero and stay
  as they are.  The shadow is written from `_filter.py` (function and variable names in the
  comments); it uses the model's arithmetic-free helpers (`indexOf`, `unescape`, `extHeader`,
  `substringsValue`, `validAttr`) unchanged.
-/
import Verif.Spec.Rfc4515

namespace Verif

open Verif.Rfc4515

/-! ### RFC domain of the text form -/

mutual
/-- every attribute description in the tree is an RFC 4512 `attributedescription` and every
    matching rule an RFC 4512 `oid` -/
def Filter.AttrsRfc : Filter → Prop
  | .and fs | .or fs => Filter.AttrsRfcs fs
  | .not f => Filter.AttrsRfc f
  | .eq a _ | .ge a _ | .le a _ | .approx a _ | .present a | .substr a _ _ _ => IsAttrDesc a
  | .ext rule attr _ _ =>
    (match attr with | none => True | some a => IsAttrDesc a) ∧
      (match rule with | none => True | some r => IsOid r)
  | .custom _ => True
def Filter.AttrsRfcs : List Filter → Prop
  | [] => True
  | f :: fs => Filter.AttrsRfc f ∧ Filter.AttrsRfcs fs
end

mutual
/-- every extensible match in the tree has an attribute description or a matching rule
    (RFC 4511 §4.5.1.7.7; both alternatives of RFC 4515 `extensible` need one of them) -/
def Filter.ExtRfc : Filter → Prop
  | .and fs | .or fs => Filter.ExtRfcs fs
  | .not f => Filter.ExtRfc f
  | .ext rule attr _ _ => attr.isSome = true ∨ rule.isSome = true
  | _ => True
def Filter.ExtRfcs : List Filter → Prop
  | [] => True
  | f :: fs => Filter.ExtRfc f ∧ Filter.ExtRfcs fs
end

/-! ### the recorded deviation F-C15d -/

/-- RFC 4512 `options = *( SEMI option )`, `option = 1*keychar`, as text -/
def optionsText (opts : List Bytes) : Bytes := (opts.map (fun o => 59 :: o)).flatten

/-- F-C15d: one `number` (a "numericoid" with a single arc — RFC 4512 demands at least two),
    followed by RFC 4512 options -/
def IsSingleArcAttr (a : Bytes) : Prop :=
  ∃ (n : Bytes) (opts : List Bytes), IsNumber n ∧ (∀ o ∈ opts, o ≠ [] ∧ ∀ x ∈ o, isKeyCh x = true) ∧
    a = n ++ optionsText opts

mutual
/-- every attribute description and every matching rule in the tree is an RFC 4512
    `attributedescription` or an instance of F-C15d -/
def Filter.AttrsRfcOrSingle : Filter → Prop
  | .and fs | .or fs => Filter.AttrsRfcOrSingles fs
  | .not f => Filter.AttrsRfcOrSingle f
  | .eq a _ | .ge a _ | .le a _ | .approx a _ | .present a | .substr a _ _ _ => IsAttrDesc a ∨ IsSingleArcAttr a
  | .ext rule attr _ _ =>
    (match attr with | none => True | some a => IsAttrDesc a ∨ IsSingleArcAttr a) ∧
      (match rule with | none => True | some r => IsAttrDesc r ∨ IsSingleArcAttr r)
  | .custom _ => False
def Filter.AttrsRfcOrSingles : List Filter → Prop
  | [] => True
  | f :: fs => Filter.AttrsRfcOrSingle f ∧ Filter.AttrsRfcOrSingles fs
end

/-! ### the recorded deviation F-C15r and what an accepted matching rule can be -/

/-- F-C15r: an RFC 4512 `oid` followed by at least one RFC 4512 option (`2.5;x`) — an
    `attributedescription` shape in the position of RFC 4515 `matchingrule = oid` -/
def IsOidWithOptions (r : Bytes) : Prop :=
  ∃ (o : Bytes) (opts : List Bytes), IsOid o ∧ opts ≠ [] ∧ (∀ x ∈ opts, x ≠ [] ∧ ∀ c ∈ x, isKeyCh c = true) ∧
    r = o ++ optionsText opts

mutual
/-- every matching rule in the tree is an RFC 4512 `oid`, or deviates from it by exactly one of
    the two recorded findings: options after the oid (F-C15r) or a single-arc numeric oid,
    possibly with options (F-C15d) -/
def Filter.RulesOidUpToFindings : Filter → Prop
  | .and fs | .or fs => Filter.RulesOidUpToFindingss fs
  | .not f => Filter.RulesOidUpToFindings f
  | .ext rule _ _ _ =>
    match rule with | none => True | some r => IsOid r ∨ IsOidWithOptions r ∨ IsSingleArcAttr r
  | _ => True
def Filter.RulesOidUpToFindingss : List Filter → Prop
  | [] => True
  | f :: fs => Filter.RulesOidUpToFindings f ∧ Filter.RulesOidUpToFindingss fs
end

/-! ### `from_string` with Python-`int` subtraction -/

/-- `FilterSyntaxError(offset, length)` with integer fields, the two internal conditions of the
    model, and `negative`: an integer below zero was about to be used as an index or a slice
    length -/
inductive FErrZ where
  | syntax (off len : Int)
  | recursion
  | fuel
  | negative
  deriving DecidableEq, Repr, Inhabited

/-- use an integer as an index / slice length -/
def natOf (z : Int) : Except FErrZ Nat := if 0 ≤ z then .ok z.toNat else .error .negative

/-- `_unpack_simple_filter(filter, view, offset, length)`; `cur = view[offset : offset + length]` -/
def unpackSimpleZ (cur : Bytes) (off : Int) : Except FErrZ (Filter × Nat) :=
  let length : Int := cur.length
  match indexOf cEq cur with
  | none => .error (.syntax off length)                      -- equals_idx == -1
  | some eq =>
    if eq = 0 then .error (.syntax off 1) else
    if (eq : Int) = length - 1 then .error (.syntax off length) else      -- `length - 1`
    match natOf ((eq : Int) - 1) with                                      -- `equals_idx - 1`
    | .error e => .error e
    | .ok i =>
    let ft := cur.getD i 0
    let typed := ft = cColon ∨ ft = cGt ∨ ft = cLt ∨ ft = cTilde
    if typed ∧ eq = 1 then .error (.syntax off length) else
    let attrEnd : Int := if typed then (eq : Int) - 1 else eq                -- `attribute_end -= 1`
    match natOf attrEnd with
    | .error e => .error e
    | .ok ae =>
    let attrib := cur.take ae
    if ft ≠ cColon ∧ !validAttr attrib then .error (.syntax off attrEnd) else
    let read := eq + 1
    match natOf (length - (read : Int)) with             -- `value_length = len(current_view) - read`
    | .error e => .error e
    | .ok vl0 =>
    let valueLen := match indexOf cRParen ((cur.drop read).take vl0) with | some i => i | none => vl0
    let raw := (cur.drop read).take valueLen
    let read' := read + valueLen
    let bad : Except FErrZ (Filter × Nat) := .error (.syntax (off + read) valueLen)
    if typed ∨ !raw.contains cStar then
      match unescape (raw.length + 1) raw with
      | none => bad
      | some v =>
        if ft = cColon then
          match extHeader attrib with
          | none => .error (.syntax off attrEnd)
          | some (attr, dn, rule) => .ok (.ext rule attr v dn, read')
        else if ft = cGt then .ok (.ge attrib v, read')
        else if ft = cLt then .ok (.le attrib v, read')
        else if ft = cTilde then .ok (.approx attrib v, read')
        else .ok (.eq attrib v, read')
    else if raw = [cStar] then .ok (.present attrib, read')
    else
      match substringsValue raw with
      | none => bad
      | some (i, any, f) => .ok (.substr attrib i any f, read')

/-- the loop of `_unpack_complex_filter`; the nested call is
    `_unpack_filter(filter, view, offset + read, length - read - 1)` -/
def complexLoopZ (uf : Bytes → Int → Except FErrZ (Filter × Nat)) (cur : Bytes) (off : Int) :
    Nat → Nat → List Filter → Except FErrZ (List Filter × Nat)
  | 0, read, fs => if read ≥ cur.length then .ok (fs, read) else .error .fuel
  | fuel+1, read, fs =>
    if read ≥ cur.length then .ok (fs, read) else
    let c := cur.getD read 0
    if c = cSpace then complexLoopZ uf cur off fuel (read + 1) fs
    else if c = cLParen then
      if cur.getD 0 0 = cBang ∧ !fs.isEmpty then .error (.syntax off cur.length)
      else
        match natOf ((cur.length : Int) - (read : Int) - 1) with          -- `length - read - 1`
        | .error e => .error e
        | .ok n =>
          match uf ((cur.drop read).take n) (off + read) with
          | .error e => .error e
          | .ok (f, k) => complexLoopZ uf cur off fuel (read + k) (fs ++ [f])
    else if c = cRParen then .ok (fs, read)
    else .error (.syntax (off + read) 1)

/-- `_unpack_complex_filter` -/
def unpackComplexZ (uf : Bytes → Int → Except FErrZ (Filter × Nat)) (cur : Bytes) (off : Int) :
    Except FErrZ (Filter × Nat) :=
  match complexLoopZ uf cur off cur.length 1 [] with
  | .error e => .error e
  | .ok (fs, read) =>
    match fs with
    | [] => .error (.syntax off cur.length)
    | f0 :: _ =>
      let t := cur.getD 0 0
      if t = cBang then .ok (.not f0, read)
      else if t = cAmp then .ok (.and fs, read)
      else .ok (.or fs, read)

/-- the loop of `_unpack_filter`; the nested calls get `sub_filter_length = length - read` -/
def filterLoopZ (uf : Bytes → Int → Except FErrZ (Filter × Nat)) (cur : Bytes) (off : Int) :
    Nat → FLoop → Except FErrZ FLoop
  | 0, st => if st.read ≥ cur.length then .ok st else .error .fuel
  | fuel+1, st =>
    if st.read ≥ cur.length then .ok st else
    let c := cur.getD st.read 0
    if c = cSpace then filterLoopZ uf cur off fuel { st with read := st.read + 1 }
    else if c = cRParen then
      match st.parens with
      | none => .error (.syntax (off + st.read) 1)
      | some _ => .ok { st with parens := none, read := st.read + 1 }
    else if st.parens.isSome then
      if c = cLParen then .error (.syntax (off + st.read) 1)
      else
        match natOf ((cur.length : Int) - (st.read : Int)) with            -- `length - read`
        | .error e => .error e
        | .ok n =>
          let sub := (cur.drop st.read).take n
          let r := if c = cBang ∨ c = cAmp ∨ c = cPipe then unpackComplexZ uf sub (off + st.read)
                   else unpackSimpleZ sub (off + st.read)
          match r with
          | .error e => .error e
          | .ok (f, k) => filterLoopZ uf cur off fuel { st with parsed := some f, read := st.read + k }
    else if c = cLParen then filterLoopZ uf cur off fuel { st with parens := some st.read, read := st.read + 1 }
    else
      match natOf ((cur.length : Int) - (st.read : Int)) with              -- `length - read`
      | .error e => .error e
      | .ok n =>
        match unpackSimpleZ ((cur.drop st.read).take n) (off + st.read) with
        | .error e => .error e
        | .ok (f, k) => .ok { st with parsed := some f, read := st.read + k }

/-- `_unpack_filter`; the unbalanced-`(` report is
    `offset + (parens_start or 0)`, `length - (parens_start or 0)` -/
def unpackFilterZ : Nat → Bytes → Int → Except FErrZ (Filter × Nat)
  | 0, _, _ => .error .recursion
  | depth+1, cur, off =>
    match filterLoopZ (unpackFilterZ depth) cur off cur.length ⟨0, none, none⟩ with
    | .error e => .error e
    | .ok st =>
      match st.parens with
      | some p => .error (.syntax (off + p) ((cur.length : Int) - (p : Int)))
      | none =>
        match st.parsed with
        | none => .error (.syntax off cur.length)
        | some f => .ok (f, st.read)

/-- `LDAPFilter.from_string`; the trailing-data report is `consumed`, `len(b_filter) - consumed` -/
def parseFilterTextZ (depth : Nat) (s : List Nat) : Except FErrZ Filter :=
  let b := utf8Encode (pyStrip s)
  match unpackFilterZ depth b 0 with
  | .error .recursion => .error (.syntax 0 b.length)
  | .error e => .error e
  | .ok (f, consumed) =>
    if consumed < b.length then .error (.syntax consumed ((b.length : Int) - (consumed : Int))) else .ok f

/-- a report of the model read as a report with integer fields -/
def FErr.toZ : FErr → FErrZ
  | .syntax off len => .syntax off len
  | .recursion => .recursion
  | .fuel => .fuel

/-- a result of the model read as a result of the shadow (`negative` is not in the image) -/
def liftZ {α : Type} : Except FErr α → Except FErrZ α
  | .ok a => .ok a
  | .error e => .error e.toZ

end Verif
